#!/usr/bin/env python3
"""vf - driver of the solver-based checks for libtmcg.

  vf check Cxx [--tier quick|thorough] [--only HARNESS_ID] [--keep]
  vf replay <file>
  vf setup
  vf list

Every run rebuilds the encoding from /repo's current working tree:
  /repo/src/*.cc + harness --clang++-14--> LLVM IR --ir2c.py--> C --cbmc--> verdict
"""
import threading
import sys, os, re, json, time, hashlib, subprocess, shutil, tempfile, argparse, resource, signal
from concurrent.futures import ThreadPoolExecutor, as_completed

VERIF = os.path.dirname(os.path.dirname(os.path.abspath(__file__)))
REPO = os.environ.get('VF_REPO', '/repo')
CACHE = os.path.join(VERIF, '.cache')
sys.path.insert(0, os.path.join(VERIF, 'harness'))

CLANG = 'clang++-14'
CXXFLAGS = ['-std=c++11', '-O1', '-fno-vectorize', '-fno-slp-vectorize', '-fno-unroll-loops', '-fno-access-control',
            '-fno-builtin', '-nostdinc++', '-w', '-DHAVE_CONFIG_H', '-DNDEBUG_VF_UNUSED']
RT_TU = os.path.join(VERIF, 'ministl', 'ministl_rt.cc')
MODELS = os.path.join(VERIF, 'models')
NCORES = int(os.environ.get('VF_JOBS', '16'))

def sh(cmd, **kw):
    return subprocess.run(cmd, stdout=subprocess.PIPE, stderr=subprocess.PIPE, text=True, **kw)

def sha(*parts):
    h = hashlib.sha256()
    for p in parts:
        h.update(p if isinstance(p, bytes) else p.encode())
        h.update(b'\0')
    return h.hexdigest()[:24]

_hdr_digest = None
def headers_digest():
    """content hash of everything a TU may include"""
    global _hdr_digest
    if _hdr_digest is None:
        h = hashlib.sha256()
        for d in (os.path.join(REPO, 'src'), os.path.join(VERIF, 'ministl'), os.path.join(MODELS, 'include'), MODELS, os.path.join(VERIF, 'harness')):
            for fn in sorted(os.listdir(d)):
                if fn.endswith(('.hh', '.h', '.hpp')) or '.' not in fn:
                    p = os.path.join(d, fn)
                    if os.path.isfile(p):
                        h.update(fn.encode()); h.update(open(p, 'rb').read())
        h.update(open(os.path.join(REPO, 'libTMCG_config.h'), 'rb').read())
        _hdr_digest = h.hexdigest()
    return _hdr_digest

def derive_config(workdir, overrides):
    """derived libTMCG_config.h = /repo's current one + #undef/#define of the listed TMCG_* macros"""
    cfgdir = os.path.join(workdir, 'cfg'); os.makedirs(cfgdir, exist_ok=True)
    base = open(os.path.join(REPO, 'libTMCG_config.h')).read()
    extra = ['', '/* --- derived by /verif for this harness (toy configuration, stated bound) --- */']
    for k, v in sorted(overrides.items()):
        extra.append('#undef %s' % k); extra.append('#define %s %s' % (k, v))
    txt = base + '\n'.join(extra) + '\n'
    open(os.path.join(cfgdir, 'libTMCG_config.h'), 'w').write(txt)
    return cfgdir, '\n'.join(extra)

def compile_tu(src, cfgdir, cfgtxt, defines, workdir, noinline=False):
    os.makedirs(CACHE, exist_ok=True)
    dflags = ['-D%s=%s' % (k, v) for k, v in sorted(defines.items())]
    if noinline: dflags.append('-fno-inline')   # keep replaced (stubbed) functions as call targets
    key = sha(open(src, 'rb').read(), headers_digest(), cfgtxt, ' '.join(CXXFLAGS + dflags), src)
    out = os.path.join(CACHE, '%s_%s.ll' % (os.path.basename(src).replace('.', '_'), key))
    with _locks_guard:
        lk = _locks.setdefault(out, threading.Lock())
    with lk:
        return _compile_locked(src, out, dflags, cfgdir)

def _compile_locked(src, out, dflags, cfgdir):
    if os.path.exists(out):
        return out
    cmd = [CLANG] + CXXFLAGS + dflags + ['-isystem', os.path.join(VERIF, 'ministl'), '-I', cfgdir, '-I', os.path.join(MODELS, 'include'),
                                         '-I', MODELS, '-I', os.path.join(VERIF, 'harness'), '-I', REPO, '-I', os.path.join(REPO, 'src'),
                                         '-S', '-emit-llvm', '-o', out + '.tmp%d' % os.getpid(), src]
    r = sh(cmd)
    if r.returncode != 0:
        raise BuildError('clang failed on %s:\n%s' % (src, r.stderr[-3000:]))
    os.replace(out + '.tmp%d' % os.getpid(), out)
    return out

class BuildError(Exception):
    pass

_locks = {}
_locks_guard = threading.Lock()

def demangle_all(names):
    r = subprocess.run(['llvm-cxxfilt-14'], input='\n'.join(names), stdout=subprocess.PIPE, text=True)
    return dict(zip(names, r.stdout.split('\n')))

def build(h, workdir, witness=False):
    """returns dict(c=path to generated C, info=...)"""
    cfgdir, cfgtxt = derive_config(workdir, h.get('config', {}))
    defines = dict(h.get('defines', {}))
    noinline = bool(h.get('replace')) or bool(h.get('noinline'))
    srcs = [os.path.join(VERIF, 'harness', h['src']), RT_TU] + [os.path.join(REPO, 'src', t) for t in h.get('tu', [])]
    lls = []
    with ThreadPoolExecutor(max_workers=4) as ex:
        lls = list(ex.map(lambda s: compile_tu(s, cfgdir, cfgtxt, defines, workdir, noinline and s.startswith(REPO)), srcs))
    linked = os.path.join(workdir, 'all.ll')
    r = sh(['llvm-link-14', '-S', '-o', linked] + lls)
    if r.returncode != 0:
        raise BuildError('llvm-link failed: ' + r.stderr[-2000:])
    # resolve replacements (by demangled base name or full demangled signature)
    repl_args = []
    if h.get('replace') or h.get('drop'):
        names = re.findall(r'^(?:define|declare)[^@]*@("[^"]+"|[-A-Za-z$._0-9]+)\(', open(linked).read(), re.M)
        names = [n.strip('"') for n in names]
        dm = demangle_all(names)
        for key, new in h.get('replace', {}).items():
            hits = [n for n in names if dm[n] == key or dm[n].split('(')[0] == key]
            if new not in names:
                cand = [n for n in names if dm[n] == new or dm[n].split('(')[0] == new]
                if len(cand) != 1:
                    if hits: raise BuildError('replace: target %r matches %d functions' % (new, len(cand)))
                    continue
                new = cand[0]
            hits = [n for n in hits if n != new]
            if not hits:
                continue   # not referenced by this harness
            for n in hits:
                repl_args += ['--replace', '%s=%s' % (n, new)]
        for key in h.get('drop', []):
            hits = [n for n in names if dm[n] == key or dm[n].split('(')[0] == key]
            for n in hits:
                repl_args += ['--drop', n]
    outc = os.path.join(workdir, 'out.c')
    info = os.path.join(workdir, 'info.json')
    r = sh([sys.executable, os.path.join(VERIF, 'engine', 'ir2c.py'), linked, '-o', outc, '--entry', h['entry'], '--info', info] + repl_args)
    if r.returncode != 0:
        raise BuildError('ir2c failed: ' + r.stderr[-3000:])
    return {'c': outc, 'info': json.load(open(info)), 'cfg': cfgtxt, 'defines': defines}

def model_files(h):
    ms = ['vf_rt.c'] + h.get('models', ['gmp_model.c', 'libc_model.c'])
    return [os.path.join(MODELS, m) for m in ms]

def cbmc_cmd(h, b, witness):
    defs = ['-D%s=%s' % (k, v) for k, v in sorted(b['defines'].items())]
    cmd = ['cbmc', b['c']] + model_files(h) + ['-I', MODELS] + defs
    cmd += ['--unwind', str(h.get('unwind', 8)), '--unwinding-assertions', '--no-malloc-may-fail', '--drop-unused-functions',
            '--slice-formula', '--json-ui', '--function', 'main', '--object-bits', str(h.get('object_bits', 11))]
    if h.get('unwindset'):
        cmd += ['--unwindset', ','.join('%s:%d' % kv for kv in h['unwindset'].items())]
    if witness:
        cmd += ['-DVF_WITNESS', '--no-standard-checks', '--no-built-in-assertions']
    else:
        cmd += ['--trace']
        if h.get('no_pointer_checks'):
            cmd += ['--no-pointer-check', '--no-bounds-check', '--no-div-by-zero-check', '--no-signed-overflow-check', '--no-undefined-shift-check', '--no-pointer-primitive-check']
    if h.get('paths'):
        cmd += ['--paths', 'lifo']   # one path at a time: text parsers branch on every symbolic character
    for extra in h.get('cbmc_flags', []):
        cmd.append(extra)
    if h.get('backend') == 'cvc5int':
        cmd += ['--cvc5']
    if h.get('backend') == 'cadical':
        cmd += ['--sat-solver', 'cadical']
    elif h.get('backend') == 'kissat':
        cmd += ['--external-sat-solver', 'kissat']
    return cmd

def limit_mem(gb):
    def f():
        resource.setrlimit(resource.RLIMIT_AS, (gb << 30, gb << 30))
        os.setsid()
    return f

def run_cbmc(cmd, timeout, memgb, logpath):
    t0 = time.time()
    maxrss = 0
    try:
        env = dict(os.environ); env['PATH'] = os.path.join(VERIF, 'engine', 'shim') + ':' + env.get('PATH', '')
        p = subprocess.Popen(cmd, stdout=subprocess.PIPE, stderr=subprocess.PIPE, text=True, preexec_fn=limit_mem(memgb), env=env)
        try:
            out, err = p.communicate(timeout=timeout)
        except subprocess.TimeoutExpired:
            os.killpg(p.pid, signal.SIGKILL)
            p.communicate()
            return {'status': 'timeout', 'wall': time.time() - t0}
    except Exception as e:
        return {'status': 'error', 'detail': str(e), 'wall': time.time() - t0}
    wall = time.time() - t0
    if logpath:
        open(logpath, 'w').write(out[-2000000:] + '\n--stderr--\n' + err[-20000:])
    try:
        msgs = json.loads(out)
    except Exception:
        return {'status': 'error', 'detail': 'unparsable cbmc output (rc=%d): %s' % (p.returncode, (out[-500:] + err[-500:])), 'wall': wall}
    res = None; errors = []
    for m in msgs:
        if 'result' in m: res = m['result']
        if m.get('messageType') == 'ERROR': errors.append(m.get('messageText', ''))
    if res is None:
        return {'status': 'error', 'detail': 'no result: ' + ' | '.join(errors)[-800:], 'wall': wall}
    return {'status': 'ok', 'results': res, 'wall': wall}

def classify(results):
    """split property results of a normal (non-witness) run"""
    viol = []; incon = []; nprops = 0
    for r in results:
        nprops += 1
        if r['status'] == 'SUCCESS': continue
        d = r.get('description', '')
        if d.startswith('MODEL-BOUND') or d.startswith('MODEL-UNSUPPORTED'):
            incon.append((r['property'], d))
        elif 'no body for callee' in d:
            incon.append((r['property'], 'ENGINE: ' + d))
        elif 'unwinding assertion' in d:
            incon.append((r['property'], d))
        elif r['status'] == 'FAILURE':
            viol.append(r)
        else:
            incon.append((r['property'], d + ' status=' + r['status']))
    return viol, incon, nprops

def nondet_log_from_trace(trace):
    """values returned by the vf_nondet_* calls, in call order (every draw goes through vf_draw in vf_rt.c)"""
    vals = []
    for st in trace:
        if st.get('stepType') != 'assignment': continue
        if st.get('lhs', '') == 'return_value_vf_draw':
            v = st.get('value', {})
            data = v.get('data')
            try:
                if 'binary' in v: vals.append(int(v['binary'], 2))
                else: vals.append(int(str(data).rstrip('ulUL')))
            except Exception:
                vals.append(0)
    return vals

# --------------------------------------------------------------------------
def load_hints():
    p = os.path.join(VERIF, 'harness', 'unwind_hints.json')
    try: return json.load(open(p))
    except Exception: return {}
HINTS = load_hints()

def load_index():
    import INDEX
    return INDEX.HARNESSES

def known_findings():
    kf = []
    p = os.path.join(VERIF, 'known_findings.txt')
    if os.path.exists(p):
        for ln in open(p):
            ln = ln.strip()
            if ln.startswith('known:'):
                d = dict(x.split('=', 1) for x in ln[6:].split() if '=' in x)
                d['_line'] = ln
                kf.append(d)
    return kf

def run_harness(h, tier, rootdir, keep):
    """build + witness twin + main query; returns a result dict"""
    hid = h['id']
    wd = os.path.join(rootdir, hid); os.makedirs(wd, exist_ok=True)
    res = {'id': hid, 'property': h['property'], 'desc': h.get('desc', ''), 'symbolic': h.get('symbolic', ''), 'bounds': h.get('bounds', ''),
           'status': None, 'queries': 0, 'solver_s': 0.0, 'violations': [], 'inconclusive': []}
    t0 = time.time()
    try:
        b = build(h, wd)
    except BuildError as e:
        res['status'] = 'inconclusive'; res['inconclusive'].append('build: ' + str(e)[:1500]); return res
    res['build_s'] = round(time.time() - t0, 2)
    res['functions'] = b['info']['functions']; res['externals'] = b['info']['externals']
    res['config'] = b['cfg']; res['defines'] = b['defines']
    timeout = h.get('timeout', 1800 if tier == 'quick' else 3600)
    mem = h.get('memgb', 6)
    # witness twin; doubles as the loop-bound finder: a failed unwinding assertion raises that loop's bound and the
    # twin is run again (per-loop iterative deepening), so bounds are derived from the code, not guessed
    h = dict(h); h['unwindset'] = dict(h.get('unwindset', {}))
    # committed starting points for the per-loop bounds (harness/unwind_hints.json, produced by `vf check --learn`); they only
    # save deepening rounds: a bound that is too small for the current tree is still detected and raised
    for lid, bnd in HINTS.get(h.get('base_id', h['id']), {}).items():
        h['unwindset'].setdefault(lid, bnd)
    cap = h.get('unwind_cap', 160)
    rounds = 0
    while True:
        rounds += 1
        w = run_cbmc(cbmc_cmd(h, b, True), timeout, mem, os.path.join(wd, 'witness.log'))
        res['queries'] += 1; res['solver_s'] += w.get('wall', 0)
        if w['status'] != 'ok':
            res['status'] = 'inconclusive'; res['inconclusive'].append('witness run: %s %s' % (w['status'], w.get('detail', ''))); return res
        failed_loops = [r['property'] for r in w['results'] if 'unwinding assertion' in r.get('description', '') and r['status'] == 'FAILURE']
        if not failed_loops or rounds >= (20 if h.get('paths') else 14): break
        grew = False
        for pr in failed_loops:
            m_ = re.fullmatch(r'(.*)\.unwind\.(\d+)', pr)
            if not m_: continue
            lid = '%s.%s' % (m_.group(1), m_.group(2))
            cur = h['unwindset'].get(lid, h.get('unwind', 8))
            if cur >= cap: continue
            h['unwindset'][lid] = min(cap, cur * 2 + 2); grew = True
        if not grew: break
    res['unwindset'] = h['unwindset']; res['unwind_rounds'] = rounds
    if failed_loops:
        res['status'] = 'inconclusive'; res['inconclusive'].append('loop bound not found below cap %d: %s' % (cap, failed_loops[:4])); return res
    wit = [r for r in w['results'] if r.get('description', '').startswith('WITNESS')]
    unreached = [r['description'] for r in wit if r['status'] != 'FAILURE']
    res['witnesses'] = len(wit)
    if not wit or unreached:
        res['status'] = 'inconclusive'; res['inconclusive'].append('vacuous: witness not reachable: %s' % (unreached or 'no witness in harness')); return res
    bks = h.get('backend') if isinstance(h.get('backend'), list) else [h.get('backend')]
    for bi, bk in enumerate(bks):
        hb = dict(h); hb['backend'] = bk
        to = timeout if bi == len(bks) - 1 else min(timeout, h.get('first_backend_timeout', 150))
        m = run_cbmc(cbmc_cmd(hb, b, False), to, mem, os.path.join(wd, 'main.log'))
        res['queries'] += 1; res['solver_s'] += m.get('wall', 0)
        res.setdefault('backends_tried', []).append('%s:%s' % (bk or 'minisat', m['status']))
        if m['status'] == 'ok': break
    if m['status'] != 'ok':
        res['status'] = 'inconclusive'; res['inconclusive'].append('main run: %s %s' % (m['status'], m.get('detail', ''))); return res
    viol, incon, nprops = classify(m['results'])
    res['properties_checked'] = nprops
    res['user_asserts_proved'] = sum(1 for r_ in m['results'] if '.assertion.' in r_['property'] and r_['status'] == 'SUCCESS'
                                     and not r_.get('description', '').startswith(('MODEL-', 'WITNESS')) and not r_['property'].startswith('vf_'))
    if viol: incon = [(p, d) for p, d in incon if 'status=UNKNOWN' not in d]
    for p, d in incon: res['inconclusive'].append('%s: %s' % (p, d))
    for v in viol:
        vals = nondet_log_from_trace(v.get('trace', []))
        res['violations'].append({'cbmc_property': v['property'], 'description': v.get('description', ''),
                                  'line': (v.get('sourceLocation') or {}).get('line'), 'function': (v.get('sourceLocation') or {}).get('function'),
                                  'nondet': vals})
    if res['violations']: res['status'] = 'violation'
    elif res['inconclusive']: res['status'] = 'inconclusive'
    else: res['status'] = 'holds'
    res['wd'] = wd
    return res

def expand(h, tier):
    """apply tier overrides"""
    hh = dict(h)
    t = h.get('tiers', {}).get(tier)
    if t: hh.update(t)
    return hh

def native_replay(h, wd, vals, outdir, tag):
    """re-execute the generated C natively (gcc, models compiled natively) on the counterexample inputs"""
    exe = os.path.join(wd, 'replay_' + tag)
    b_defs = ['-D%s=%s' % (k, v) for k, v in sorted(h.get('defines', {}).items())]
    r = sh(['gcc', '-w', '-O0', '-fsanitize=address,undefined', '-fno-sanitize-recover=undefined', '-g', '-I', MODELS] + b_defs + ['-o', exe, os.path.join(wd, 'out.c')] + model_files(h))
    if r.returncode != 0:
        return {'ran': False, 'detail': 'gcc: ' + r.stderr[-500:]}
    vf = os.path.join(wd, 'vals_' + tag)
    open(vf, 'w').write('\n'.join(str(v) for v in vals) + '\n')
    env = dict(os.environ); env['VF_REPLAY_VALUES'] = vf; env['ASAN_OPTIONS'] = 'detect_leaks=0'
    try:
        r = subprocess.run([exe], stdout=subprocess.PIPE, stderr=subprocess.PIPE, text=True, env=env, timeout=120)
    except subprocess.TimeoutExpired:
        return {'ran': True, 'rc': 'timeout', 'reproduced': True, 'out': 'timeout (non-termination?)'}
    out = (r.stdout + r.stderr)[-3000:]
    rep = r.returncode != 0 and 'VF_ASSUME_FAILED' not in out and 'VF_MODEL_' not in out
    return {'ran': True, 'rc': r.returncode, 'reproduced': rep, 'out': out}

def cmd_check(prop, tier, only, keep, seed, learn=False):
    t0 = time.time()
    idx = load_index()
    hs = []
    for h in idx:
        if h['property'] != prop or tier not in h.get('in_tiers', ('quick', 'thorough')): continue
        e = expand(h, tier)
        if e.get('slices'):
            for i, sl in enumerate(e['slices']):
                v = dict(e); v['defines'] = dict(e.get('defines', {})); v['defines'].update(sl)
                v['id'] = '%s@%s' % (e['id'], ','.join('%s=%s' % kv for kv in sorted(sl.items())))
                v['base_id'] = e['id']; v['slice'] = sl
                hs.append(v)
        else:
            hs.append(e)
    if only: hs = [h for h in hs if h['id'] in only or h.get('base_id') in only]
    if not hs:
        print('no harness for', prop); return 3
    root = tempfile.mkdtemp(prefix='vf_%s_' % prop, dir=os.environ.get('TMPDIR', '/tmp'))
    results = []
    try:
        maxmem = max(h.get('memgb', 6) for h in hs)
        jobs = max(1, min(NCORES, len(hs), int(56 // maxmem)))
        with ThreadPoolExecutor(max_workers=jobs) as ex:
            futs = {ex.submit(run_harness, h, tier, root, keep): h for h in hs}
            for f in as_completed(futs):
                r = f.result()
                results.append(r)
                print('  [%s] %-40s %-12s %6.1fs %s' % (prop, r['id'], r['status'], r['solver_s'], ('; '.join(r['inconclusive'])[:300] if r['inconclusive'] else '')), flush=True)
        results.sort(key=lambda r: r['id'])
        hmap = {h['id']: h for h in hs}
        # violations: replay + known-findings
        kf = known_findings()
        outdir = os.path.join(VERIF, 'replays'); os.makedirs(outdir, exist_ok=True)
        nviol = 0; known_printed = []; unreproduced = 0
        for r in results:
            for i, v in enumerate(r['violations']):
                tag = '%d' % i
                rp = native_replay(hmap[r['id']], r['wd'], v['nondet'], outdir, tag)
                v['native_replay'] = {k: rp.get(k) for k in ('ran', 'rc', 'reproduced')}
                v['native_out'] = rp.get('out', rp.get('detail', ''))[-600:]
                is_ptr = not v['cbmc_property'].split('.')[-2].startswith('assertion') if '.' in v['cbmc_property'] else False
                path = os.path.join(outdir, '%s_%s_%s.json' % (prop, r['id'], tag))
                json.dump({'property': prop, 'harness': r['id'], 'tier': tier, 'cbmc_property': v['cbmc_property'], 'description': v['description'],
                           'nondet_values': v['nondet'], 'config': r.get('config'), 'defines': r.get('defines'), 'native_replay': v['native_replay'],
                           'native_out': v['native_out']}, open(path, 'w'), indent=1)
                v['replay'] = path
                k = None
                for e in kf:
                    if e.get('property') == prop and e.get('harness') in (r['id'], r['id'].split('@')[0]) and (e.get('label') is None or e.get('label') in v['description'].replace(' ', '_')):
                        k = e; break
                if k:
                    v['known'] = k['_line']
                    if k['_line'] not in known_printed:
                        known_printed.append(k['_line'])
                        print('KNOWN-FINDING: property=%s %s' % (prop, re.sub(r'^property=\S+\s*', '', k['_line'][6:].strip())))
                elif rp.get('ran') and not rp.get('reproduced'):
                    unreproduced += 1
                    r['inconclusive'].append('counterexample for "%s" did not reproduce natively: %s' % (v['description'], v['native_out'][-200:]))
                else:
                    nviol += 1
                    print('VIOLATION property=%s replay=%s' % (prop, path))
                    print('  harness=%s assertion="%s" inputs=%s' % (r['id'], v['description'], v['nondet'][:24]))
        incon = [r for r in results if r['status'] == 'inconclusive' or (r['status'] == 'violation' and r['inconclusive'])]
        wall = time.time() - t0
        if learn:
            hints = load_hints()
            for r in results:
                if r['status'] == 'holds' and r.get('unwindset'):
                    base = r['id'].split('@')[0]
                    cur = hints.setdefault(base, {})
                    for lid, bnd in r['unwindset'].items(): cur[lid] = max(cur.get(lid, 0), bnd)
            json.dump(hints, open(os.path.join(VERIF, 'harness', 'unwind_hints.json'), 'w'), indent=0, sort_keys=True)
        write_evidence(prop, tier, seed, results, wall, nviol)
        for r in incon:
            print('INCONCLUSIVE %s: %s' % (r['id'], '; '.join(r['inconclusive'])[:600]))
        if nviol: return 1
        if incon or unreproduced: return 3
        print('OK property=%s tier=%s harnesses=%d queries=%d wall=%.1fs' % (prop, tier, len(results), sum(r['queries'] for r in results), wall))
        return 0
    finally:
        if not keep:
            shutil.rmtree(root, ignore_errors=True)
        else:
            print('kept', root)

def write_evidence(prop, tier, seed, results, wall, nviol):
    os.makedirs(os.path.join(VERIF, 'evidence'), exist_ok=True)
    funcs = sorted({f for r in results for f in r.get('functions', [])})
    dm = demangle_all(funcs) if funcs else {}
    repo_funcs = sorted({dm[f] for f in funcs if not dm[f].startswith(('std::', 'vf_', 'operator new', 'operator delete', '__clang', '_GLOBAL_', '__cxx_global')) and 'vf_h_' not in dm[f]})
    nontrivial = [r for r in results if r['status'] in ('holds', 'violation') and r.get('witnesses', 0) > 0]
    ev = {
        'property_id': prop, 'tier': tier, 'seed': seed, 'level': 'model_checking',
        'coverage': {
            'evaluations': sum(r['queries'] for r in results),
            'distinct_nontrivial': sum(r.get('user_asserts_proved', 0) for r in nontrivial),
            'nontrivial_harness_slices': len(nontrivial),
            'rule': 'evaluations = solver runs (cbmc invocations incl. witness twins and loop-bound deepening rounds). distinct_nontrivial = number of distinct (harness, slice, harness-level assertion) obligations proved by the SAT back end over ALL values of the symbolic variables within the stated bounds, counted only in harness slices whose -DVF_WITNESS twin reached every witness point (assumptions satisfiable, end of harness reachable); the automatically generated memory-safety/overflow obligations are counted separately in cbmc_properties',
            'samples': [{'harness': r['id'], 'what': r['desc'], 'symbolic': r['symbolic'], 'bounds': r['bounds'], 'status': r['status'],
                         'cbmc_properties': r.get('properties_checked'), 'solver_s': round(r['solver_s'], 1)} for r in results][:60],
            'exhaustive': False,
            'explanation': 'bounded symbolic execution (CBMC 6.11, SAT back end) of C generated by /verif/engine/ir2c.py from the LLVM IR of /repo/src at the current working tree; verdict per query holds for every value of the symbolic inputs inside the bounds, says nothing outside',
            'functions_encoded': repo_funcs[:400],
            'functions_encoded_count': len(repo_funcs),
            'queries_discharged': sum(r['queries'] for r in results if r['status'] == 'holds'),
            'solver_time_s': round(sum(r['solver_s'] for r in results), 1),
            'inconclusive': [{'harness': r['id'], 'why': r['inconclusive'][:5]} for r in results if r['inconclusive']],
            'harness_results': {r['id']: r['status'] for r in results},
            'violations_detail': [{'harness': r['id'], 'assertion': v['description'], 'replay': v.get('replay'), 'known': v.get('known'), 'native': v.get('native_replay')} for r in results for v in r['violations']][:40],
            'models': sorted({m for r in results for m in ['vf_rt.c', 'gmp_model.c', 'libc_model.c']}),
        },
        'assumptions': sorted({a for r in results for a in r.get('assumptions', [])} | {
            'clang-14 IR generation, ir2c.py translation and CBMC are trusted; ministl stands in for libstdc++; models/*.c stand in for GMP/libgcrypt/libc (bounded integers < 2^VF_BITS)',
            'malloc never fails; toy configuration macros as listed per harness'}),
        'wall_s': round(wall, 2), 'violations': nviol,
    }
    json.dump(ev, open(os.path.join(VERIF, 'evidence', prop + '.json'), 'w'), indent=1)

def cmd_replay(path):
    d = json.load(open(path))
    idx = load_index()
    h = [expand(x, d.get('tier', 'quick')) for x in idx if x['id'] == d['harness'].split('@')[0]]
    if not h:
        print('unknown harness', d['harness']); return 2
    h = dict(h[0])
    if d.get('defines'): h['defines'] = d['defines']
    root = tempfile.mkdtemp(prefix='vf_replay_')
    try:
        wd = os.path.join(root, h['id']); os.makedirs(wd)
        b = build(h, wd)
        rp = native_replay(h, wd, d['nondet_values'], root, 'r')
        print(rp.get('out', rp.get('detail')))
        print('reproduced' if rp.get('reproduced') else 'NOT reproduced')
        return 1 if rp.get('reproduced') else 0
    finally:
        shutil.rmtree(root, ignore_errors=True)

def cmd_setup():
    ok = True
    for tool in ('clang++-14', 'llvm-link-14', 'llvm-cxxfilt-14', 'cbmc', 'gcc'):
        if not shutil.which(tool):
            print('missing tool', tool); ok = False
    os.makedirs(CACHE, exist_ok=True)
    r = sh([sys.executable, os.path.join(VERIF, 'engine', 'selftest.py')]) if os.path.exists(os.path.join(VERIF, 'engine', 'selftest.py')) else None
    if r is not None:
        print(r.stdout[-2000:], r.stderr[-2000:])
        ok = ok and r.returncode == 0
    print('setup', 'ok' if ok else 'FAILED')
    return 0 if ok else 1

def main():
    ap = argparse.ArgumentParser()
    sub = ap.add_subparsers(dest='cmd')
    c = sub.add_parser('check'); c.add_argument('prop'); c.add_argument('--tier', default=os.environ.get('VERIF_TIER', 'quick'))
    c.add_argument('--only', action='append'); c.add_argument('--keep', action='store_true'); c.add_argument('--learn', action='store_true')
    r = sub.add_parser('replay'); r.add_argument('path')
    sub.add_parser('setup'); sub.add_parser('list')
    a = ap.parse_args()
    seed = int(os.environ.get('VERIF_SEED', '0') or 0)
    if a.cmd == 'check':
        sys.exit(cmd_check(a.prop, a.tier, a.only, a.keep, seed, a.learn))
    if a.cmd == 'replay':
        sys.exit(cmd_replay(a.path))
    if a.cmd == 'setup':
        sys.exit(cmd_setup())
    if a.cmd == 'list':
        for h in load_index():
            print(h['property'], h['id'], h.get('desc', ''))
        sys.exit(0)
    ap.print_help()

if __name__ == '__main__':
    main()
