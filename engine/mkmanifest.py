#!/usr/bin/env python3
"""regenerate /verif/MANIFEST.json from the claim table below + harness/INDEX.py"""
import json, os, sys
V = os.path.dirname(os.path.dirname(os.path.abspath(__file__)))
sys.path.insert(0, os.path.join(V, 'harness'))
import INDEX
props = [json.loads(l) for l in open(os.path.join(V, 'properties.jsonl'))]
have = sorted({h['property'] for h in INDEX.HARNESSES})
CLAIMS = {}   # id -> (text, note)   filled from harness/CLAIMS.py
import CLAIMS as C
checks = []; na = []
for p in props:
    pid = p['id']
    if pid in have and pid in C.CLAIMS:
        text, note = C.CLAIMS[pid]
        checks.append({
            'property_id': pid,
            'quick_cmd': './vf check %s --tier quick' % pid,
            'thorough_cmd': './vf check %s --tier thorough' % pid,
            'evidence_file': '/verif/evidence/%s.json' % pid,
            'replay_cmd_template': './vf replay {path}',
            'engine': 'vf',
            'level_claimed': {'category': 'model_checking', 'text': text, 'design_ref': 'DESIGN.md section 6 (%s)' % pid},
            'level_note': note,
            'technique': 'bounded symbolic execution of the real C++ (clang-14 LLVM IR -> C via ir2c.py -> CBMC 6.11 SAT back end), solver verdict over all symbolic inputs within stated bounds, unwinding assertions on',
        })
    else:
        na.append({'property_id': pid, 'reason': C.NA.get(pid, 'no harness built yet for this property (work in progress; see DESIGN.md section 6)')})
m = {
    'version': 1,
    'setup_cmd': './vf setup',
    'hooks': {'guard': 'LIBTMCG_VERIF', 'enable': 'none needed: checks compile /repo/src unchanged (private members via -fno-access-control, configuration through the derived libTMCG_config.h)',
              'baseline_off_cmd': 'make -C /repo -k check', 'source_commits': [], 'add_only': True},
    'engines': [{'name': 'vf', 'path': 'engine/vf.py', 'serves_properties': [c['property_id'] for c in checks],
                 'kind_free_text': 'real source -> clang++-14 -O1 LLVM IR (against ministl) -> engine/ir2c.py -> C + models/*.c -> cbmc; witness twin per harness; per-loop iterative deepening of unwinding bounds; native replay of counterexamples'}],
    'checks': checks,
    'not_applicable': na,
    'notes': 'exit 0 = all queries UNSAT within bounds and every witness twin reachable; exit 1 + VIOLATION = natively reproduced counterexample; exit 3 = inconclusive (timeout, OOM, model bound, vacuous harness) - never reported as success.',
}
json.dump(m, open(os.path.join(V, 'MANIFEST.json'), 'w'), indent=1)
print('checks:', [c['property_id'] for c in checks], 'na:', [x['property_id'] for x in na])
