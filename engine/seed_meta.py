#!/usr/bin/env python3
"""write seeded/<id>/meta.json from the confirmation and check logs"""
import os, re, json
V = os.path.dirname(os.path.dirname(os.path.abspath(__file__)))
INFO = {
 'C19a': ('C19', 'PacketLengthEncode boundary < 8384 -> <= 8384', 'a body length of exactly 8384 octets'),
 'C12a': ('C12', 'PacketMPIDecode bounds check forgets the two length octets', 'an MPI whose announced body is 1-2 octets longer than the input'),
 'C09a': ('C09', 'tmcg_mpz_sqrtmp p=1 (mod 8) branch adds 2t instead of (p-1)/2', 'a prime p = 1 (mod 16) and a residue that takes the -1 fix-up in the second loop round (p=17, a=9)'),
 'C07a': ('C07', 'bounded sampler acceptance bound max = div*m - 1', 'a modulus above 2^63 (rejection step disabled, modulo bias)'),
 'C02a': ('C02', 'TMCG_StackSecret::import permutation check loops to size-1', 'an index vector that contains 0..n-2 but not n-1 (one duplicate), e.g. (0,0)'),
 'C06a': ('C06', 'PedersenVSS::CheckGroup tests the upper bound of h on g', 'a second generator h >= p of the right residue'),
 'C05a': ('C05', 'Groth SKC verifier (f_prime overload) skips the range check of f_n', 'transcript value f_n replaced by f_n + q in a non-interactive shuffle proof'),
 'C03a': ('C03', 'PedersenCommitmentScheme::Verify loop additionally bounded by TMCG_MAX_FPOWM_N', 'more committed messages than precomputed tables (n > 256 at default configuration)'),
 'C08a': ('C08', 'KeyGenerationProtocol_VerifyNIZK: CheckElement(key) replaced by 0 < key < p', 'a key outside G with a proof computed for exactly that key and a challenge that kills the cofactor'),
 'C18a': ('C18', '1-of-N sender compares only neighbouring query elements', 'N >= 3 and two equal non-adjacent z_i in the first move'),
 'C16a': ('C16', 'DSS::Verify tests r < q twice, never s < q', 'a valid signature with s + q'),
 'C01a': ('C01', 'TMCG_CreateCardSecret (key-ring variant): XOR row update stores 1 for 1^1', 'three or more players'),
 'C17a': ('C17', 'JareckiLysyanskayaRVSS::Reconstruct demands t+2 shares', 'n = 2t+1 with exactly t deviating parties and a complained-about opening'),
 'C10a': ('C10', 'TMCG_PublicKey::check tests the STAGE3 round count on stage2_size', 'an otherwise valid, re-signed key whose non-residue proof (stage 3) was cut to fewer rounds than TMCG_KEY_NIZK_STAGE3'),
 'C14a': ('C14', 'RBC r-answer handler no longer overwrites an already stored payload mbar[tag]', 'an equivocating sender: a party that got m\' by r-send but whose quorum agreed on H(m) keeps and delivers m\' after a correct r-answer'),
 'C13b': ('C13', 'aiounicast_select::Receive: complete-message test drops the -1 for the newline', 'authenticated link; a read that ends exactly one byte before the end of a MAC tag'),
 'C15a': ('C15', 'PedersenVSS::Share: complaint flag reset inside the loop over complaints', 'a cheating dealer with >= 2 complaints (t >= 2) whose bad public answer is not the last one processed'),
 'C02b': ('C02', 'TMCG_CreateCardSecret (key-ring variant): XOR accumulator assigned instead of toggled when already 1', 'QR encoding with three or more players'),
 'C04b': ('C04', 'TMCG_StackSecret::import bijection loop stops at size-1 (same site as C02a, produced for C04)', 'cheating cut-and-choose prover sends an index vector without n-1 and one duplicate'),
 'C11a': ('C11', 'TMCG_Card::resize shrink branch resizes to w rows instead of k', 'import / assignment into a used card object with more players, same type bits, k != w'),
 'C12b': ('C12', 'MessageParse case 11: MDC split guard tests current_packet.size() instead of ctx.datalen', 'decrypted SEIPD content holding an old-format indeterminate-length literal packet with < 22 data octets in a packet > 22 octets'),
 'C20a': ('C20', 'PacketDecodeTag2 parses unhashed subpackets into the real context instead of the scratch one', 'a signature whose unhashed area carries a creation/expiration-time subpacket'),
 'C03b': ('C03', 'TMCG_ProveQuadraticResidue answers one challenge less than TMCG_MAX_ZNP_ITERATIONS', 'QR encoding, security level exactly 80'),
 'C05b': ('C05', 'Hoogh PUBROTZK::Verify_noninteractive range-checks lambda_k against p instead of q', 'lambda_k + q in a non-interactive rotation proof'),
 'C06b': ('C06', 'BarnettSmartVTMF_dlog_GroupQR::CheckGroup tests p = 3 (mod 4) instead of p = 7 (mod 8)', 'a safe prime p = 3 (mod 8) received through the stream constructor'),
 'C16b': ('C16', 'NTS::Verify range check on s by absolute value', 'a valid signature with s - q (negative)'),
 'C13a': ('C13', 'aiounicast_select::Receive removes the IV using the last read size', 'first read on an encrypted link ends inside the 16-byte IV'),
}
for sid, (prop, what, needs) in INFO.items():
    d = os.path.join(V, 'seeded', sid)
    if not os.path.isdir(d): continue
    conf = open(os.path.join(d, 'confirm.log')).read() if os.path.exists(os.path.join(d, 'confirm.log')) else ''
    chk = open(os.path.join(d, 'check.log'), errors='replace').read() if os.path.exists(os.path.join(d, 'check.log')) else ''
    viol = re.findall(r'harness=(\S+) assertion="([^"]*)"', chk)
    meta = {
        'id': sid, 'property': prop, 'change': what, 'needs_to_manifest': needs,
        'confirmed': {'patch_applies_and_builds': 'MUTANT BUILD FAILED' not in conf and 'PATCH DOES NOT APPLY' not in conf,
                      'demo_original_rc': (re.search(r'demo on original: rc=(\d+)', conf) or [None, None])[1],
                      'demo_changed_rc': (re.search(r'demo with change: rc=(\d+)', conf) or [None, None])[1],
                      'existing_tests_with_change': re.findall(r'existing test (\S+) with change: rc=(\d+)', conf),
                      'how': 'engine/seed_confirm.sh in a scratch worktree under /tmp/mut (removed afterwards): clean tree build + demo, git apply, rebuild + demo + listed tests'},
        'checks_run': {'command': 'engine/seed_run_all.sh (git -C /repo apply patch; ./vf check %s --tier quick [--only ...]; git -C /repo checkout -- .)' % prop,
                       'detected': bool(viol), 'violations': [{'harness': h, 'assertion': a} for h, a in viol][:6],
                       'note': '' if viol else ('no harness for this property / clause (see DESIGN.md A.7)' if chk == '' or 'no harness' in chk else 'check ran, no violation reported')},
    }
    json.dump(meta, open(os.path.join(d, 'meta.json'), 'w'), indent=1)
    print(sid, prop, 'detected' if viol else 'NOT detected')
