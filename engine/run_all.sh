#!/bin/bash
# run every claimed check of one tier in sequence; summary on stdout
T=${1:-quick}
cd /verif
for p in $(python3 -c "import json; print(' '.join(c['property_id'] for c in json.load(open('MANIFEST.json'))['checks']))"); do
  s=$(date +%s); ./vf check $p --tier $T > /tmp/vf_runall_${p}_$T.log 2>&1; rc=$?; e=$(date +%s)
  echo "$p tier=$T rc=$rc wall=$((e-s))s $(grep -c '^VIOLATION' /tmp/vf_runall_${p}_$T.log) violations, $(grep -c '^KNOWN-FINDING' /tmp/vf_runall_${p}_$T.log) known, $(grep -c '^INCONCLUSIVE' /tmp/vf_runall_${p}_$T.log) inconclusive"
done
echo RUNALL-DONE
