#!/bin/bash
# mk_worktree.sh <name> : scratch git worktree of /repo HEAD under /tmp/mut/<name>; configure script, Makefiles and build output
# (all git-ignored in /repo) are copied over from /repo's in-tree build so that `make -C src` only rebuilds what changes
N=$1; W=/tmp/mut/$N
mkdir -p /tmp/mut
[ -d $W ] || git -C /repo worktree add -q --detach $W HEAD || exit 1
rsync -a --exclude .git --ignore-existing /repo/ $W/
cd $W && sed -i "s#/repo#$W#g" Makefile src/Makefile tests/Makefile config.status libtool 2>/dev/null
make -C src -j${2:-4} > /tmp/mut/$N.make.log 2>&1 && mkdir -p out && echo "worktree $W ready"
