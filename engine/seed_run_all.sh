#!/bin/bash
# run the relevant checks against every seeded change (applied to /repo, undone afterwards); results in seeded/<id>/check.log
cd /verif
run() { # id property only-args...
  id=$1; prop=$2; shift 2
  git -C /repo checkout -- . ; git -C /repo apply /verif/seeded/$id/patch.diff || { echo "$id: patch failed"; return; }
  ./vf check $prop --tier quick "$@" > /verif/seeded/$id/check.log 2>&1; rc=$?
  git -C /repo checkout -- .
  echo "$id property=$prop rc=$rc violations=$(grep -c '^VIOLATION' /verif/seeded/$id/check.log)"
}
run C19a C19 --only C19_pktlen_roundtrip
run C12a C12 --only C12_pgp_mpidecode
run C09a C09 --only C09_sqrtmp --only C09_sqrtmn
run C07a C07
run C02a C02
run C06a C06 --only "C06_pvss@H_P=7,H_W=4,VF_BITS=12" --only "C06_pvss@H_P=11,H_W=4,VF_BITS=12" --only "C06_pvss@H_P=13,H_W=4,VF_BITS=12"
run C05a C05
run C03a C03 --only C03_pedersen
run C08a C08 --only C08_outgroup --only C08_bad
run C18a C18 --only C18_ot_n3_firstmove --only C18_ot_n2_firstmove
run C16a C16
run C01a C01
echo SEEDRUN-DONE
