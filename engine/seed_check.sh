#!/bin/bash
# seed_check.sh <name> <property> [tier] : apply seeded patch to /repo, run the check, undo
N=$1; P=$2; T=${3:-quick}
cd /repo && git apply /verif/seeded/$N/patch.diff || exit 2
cd /verif && ./vf check $P --tier $T > /verif/seeded/$N/check_$T.log 2>&1; RC=$?
git -C /repo checkout -- .
echo "check $P on $N: rc=$RC"; grep -c VIOLATION /verif/seeded/$N/check_$T.log
exit 0
