#!/usr/bin/env python3
"""ir2c: translate an LLVM-14 (typed pointer) IR module, as produced by
clang++-14 -O1 from libtmcg + ministl + a harness, into one plain C file that
CBMC's C front end accepts.

Anything that is not understood is a hard error naming the construct: nothing
is dropped silently (the only ignored things are debug/lifetime/noalias
intrinsics, parameter attributes and metadata).

usage: ir2c.py in.ll -o out.c --entry NAME [--replace OLD=NEW ...] [--drop NAME ...]
                [--info info.json]
"""
import sys, re, json, argparse, subprocess

class IRError(Exception):
    pass

# --------------------------------------------------------------------------
# tokenizer
# --------------------------------------------------------------------------
TOK_RE = re.compile(r'''
    (?P<ws>\s+)
  | (?P<cstr>c"(?:[^"\\]|\\[0-9A-Fa-f]{2}|\\\\)*")
  | (?P<str>"(?:[^"\\]|\\.)*")
  | (?P<local>%(?:"(?:[^"\\]|\\.)*"|[-a-zA-Z$._0-9]+))
  | (?P<global>@(?:"(?:[^"\\]|\\.)*"|[-a-zA-Z$._0-9]+))
  | (?P<meta>![-a-zA-Z$._0-9]*)
  | (?P<attr>\#[0-9]+)
  | (?P<comdat>\$(?:"(?:[^"\\]|\\.)*"|[-a-zA-Z$._0-9]+))
  | (?P<float>[-+]?[0-9]+\.[0-9]*(?:[eE][-+]?[0-9]+)?|0x[KLMHR]?[0-9A-Fa-f]+)
  | (?P<int>-?[0-9]+)
  | (?P<dots>\.\.\.)
  | (?P<word>[a-zA-Z_][-a-zA-Z_.0-9]*)
  | (?P<punct>[=,(){}\[\]<>*:|])
''', re.X)

def tokenize(s):
    out = []
    pos = 0
    n = len(s)
    while pos < n:
        if s[pos] == ';':
            break
        m = TOK_RE.match(s, pos)
        if not m:
            raise IRError("cannot tokenize at: " + s[pos:pos+60])
        pos = m.end()
        k = m.lastgroup
        if k == 'ws':
            continue
        out.append((k, m.group(k)))
    return out

def unquote(name):
    # %"foo bar" or @"\01x"
    sig = name[0]
    body = name[1:]
    if body.startswith('"'):
        body = body[1:-1]
        body = re.sub(r'\\([0-9A-Fa-f]{2})', lambda m: chr(int(m.group(1), 16)), body)
    return sig + body

# --------------------------------------------------------------------------
# types
# --------------------------------------------------------------------------
class Ty:
    __slots__ = ('kind', 'bits', 'elem', 'count', 'fields', 'packed', 'name', 'ret', 'params', 'vararg', 'cname', 'opaque')
    def __init__(self, kind):
        self.kind = kind; self.bits = 0; self.elem = None; self.count = 0; self.fields = None
        self.packed = False; self.name = None; self.ret = None; self.params = None; self.vararg = False
        self.cname = None; self.opaque = False
    def __repr__(self):
        return 'Ty(%s)' % self.key()
    def key(self):
        k = self.kind
        if k == 'int': return 'i%d' % self.bits
        if k in ('void', 'double', 'float', 'label', 'metadata', 'token', 'x86_fp80'): return k
        if k == 'ptr': return self.elem.key() + '*'
        if k == 'array': return '[%d x %s]' % (self.count, self.elem.key())
        if k == 'struct':
            if self.name: return self.name
            return ('<{%s}>' if self.packed else '{%s}') % ','.join(f.key() for f in self.fields)
        if k == 'func':
            return '%s(%s%s)' % (self.ret.key(), ','.join(p.key() for p in self.params), ',...' if self.vararg else '')
        raise IRError('key of ' + k)

class Types:
    def __init__(self):
        self.tab = {}
        self.named = {}
        self.order = []
    def intern(self, t):
        k = t.key()
        if k in self.tab:
            return self.tab[k]
        self.tab[k] = t
        self.order.append(t)
        return t
    def int(self, bits):
        t = Ty('int'); t.bits = bits; return self.intern(t)
    def simple(self, kind):
        return self.intern(Ty(kind))
    def ptr(self, elem):
        t = Ty('ptr'); t.elem = elem; return self.intern(t)
    def array(self, n, elem):
        t = Ty('array'); t.count = n; t.elem = elem; return self.intern(t)
    def lit_struct(self, fields, packed):
        t = Ty('struct'); t.fields = fields; t.packed = packed; return self.intern(t)
    def func(self, ret, params, vararg):
        t = Ty('func'); t.ret = ret; t.params = params; t.vararg = vararg; return self.intern(t)
    def named_struct(self, name):
        if name in self.named:
            return self.named[name]
        t = Ty('struct'); t.name = name; t.opaque = True; t.fields = []
        self.named[name] = t
        self.tab[name] = t
        self.order.append(t)
        return t

# --------------------------------------------------------------------------
# values
# --------------------------------------------------------------------------
class Val:
    __slots__ = ('kind', 'ty', 'v', 'ops', 'extra')
    # kinds: int, null, undef, zero, local, global, cstr, agg, cexpr, float
    def __init__(self, kind, ty, v=None, ops=None, extra=None):
        self.kind = kind; self.ty = ty; self.v = v; self.ops = ops; self.extra = extra

PARAM_ATTRS = {'noundef', 'nonnull', 'nocapture', 'readonly', 'writeonly', 'readnone', 'signext', 'zeroext',
               'returned', 'noalias', 'inreg', 'immarg', 'nofree', 'nest', 'swiftself', 'swifterror', 'noalias',
               'inalloca', 'writable', 'dead_on_unwind'}
PARAM_ATTRS_ARG = {'dereferenceable', 'dereferenceable_or_null', 'align', 'byval', 'sret', 'byref', 'preallocated', 'elementtype'}
LINKAGE = {'private', 'internal', 'available_externally', 'linkonce', 'weak', 'common', 'appending', 'extern_weak',
           'linkonce_odr', 'weak_odr', 'external', 'dso_local', 'dso_preemptable', 'default', 'hidden', 'protected',
           'unnamed_addr', 'local_unnamed_addr', 'thread_local', 'externally_initialized', 'dllimport', 'dllexport'}
CALLCONV = {'ccc', 'fastcc', 'coldcc', 'tailcc', 'swiftcc'}
FMF = {'fast', 'nnan', 'ninf', 'nsz', 'arcp', 'contract', 'afn', 'reassoc'}

class Parser:
    """token stream with IR-specific helpers"""
    def __init__(self, mod, toks, func=None):
        self.m = mod; self.t = toks; self.i = 0; self.f = func
    def peek(self, k=0):
        return self.t[self.i + k] if self.i + k < len(self.t) else ('eof', '')
    def next(self):
        x = self.peek(); self.i += 1; return x
    def accept(self, val):
        if self.peek()[1] == val and self.peek()[0] not in ('str', 'cstr'):
            self.i += 1; return True
        return False
    def expect(self, val):
        if not self.accept(val):
            raise IRError('expected %r, got %r in: %s' % (val, self.peek(), ' '.join(x[1] for x in self.t)[:300]))
    def at_end(self):
        return self.i >= len(self.t)

    # ---- types
    def parse_type(self):
        k, v = self.next()
        T = self.m.types
        if k == 'word':
            if v == 'void': t = T.simple('void')
            elif re.fullmatch(r'i[0-9]+', v): t = T.int(int(v[1:]))
            elif v in ('double', 'float', 'label', 'metadata', 'token', 'x86_fp80'): t = T.simple(v)
            elif v == 'opaque': t = None
            else: raise IRError('unknown type word ' + v)
        elif k == 'local':
            t = T.named_struct(unquote(v))
        elif v == '{':
            fields = []
            if not self.accept('}'):
                while True:
                    fields.append(self.parse_type())
                    if self.accept('}'): break
                    self.expect(',')
            t = T.lit_struct(fields, False)
        elif v == '<':
            if self.accept('{'):
                fields = []
                if not self.accept('}'):
                    while True:
                        fields.append(self.parse_type())
                        if self.accept('}'): break
                        self.expect(',')
                self.expect('>')
                t = T.lit_struct(fields, True)
            else:
                raise IRError('vector types are not supported')
        elif v == '[':
            n = int(self.next()[1]); self.expect('x'); e = self.parse_type(); self.expect(']')
            t = T.array(n, e)
        else:
            raise IRError('bad type start %r' % v)
        # suffixes
        while True:
            if self.accept('*'):
                t = T.ptr(t)
            elif self.peek()[1] == '(' and self.peek()[0] == 'punct':
                self.next()
                params = []; va = False
                if not self.accept(')'):
                    while True:
                        if self.accept('...'): va = True
                        else:
                            params.append(self.parse_type())
                            self.skip_param_attrs()
                        if self.accept(')'): break
                        self.expect(',')
                t = T.func(t, params, va)
            elif self.peek()[1] == 'addrspace':
                raise IRError('addrspace')
            else:
                break
        return t

    def skip_param_attrs(self):
        info = {}
        while True:
            k, v = self.peek()
            if k == 'word' and v in PARAM_ATTRS:
                self.next()
            elif k == 'word' and v in PARAM_ATTRS_ARG:
                self.next()
                if self.accept('('):
                    if v in ('byval', 'sret', 'byref', 'preallocated', 'elementtype', 'inalloca'):
                        info[v] = self.parse_type()
                    else:
                        self.next()
                    self.expect(')')
                else:
                    self.next()  # align N
            else:
                break
        return info

    # ---- values
    def parse_typed_value(self):
        ty = self.parse_type()
        self.skip_param_attrs()
        return self.parse_value(ty)

    def parse_value(self, ty):
        k, v = self.next()
        if k == 'int':
            return Val('int', ty, int(v))
        if k == 'float':
            return Val('float', ty, v)
        if k == 'local':
            return Val('local', ty, unquote(v))
        if k == 'global':
            name = unquote(v)
            return Val('global', ty, name)
        if k == 'cstr':
            body = v[2:-1]
            bs = []
            i = 0
            while i < len(body):
                if body[i] == '\\':
                    if body[i+1] == '\\': bs.append(92); i += 2
                    else: bs.append(int(body[i+1:i+3], 16)); i += 3
                else:
                    bs.append(ord(body[i])); i += 1
            return Val('cstr', ty, bs)
        if k == 'word':
            if v == 'true': return Val('int', ty, 1)
            if v == 'false': return Val('int', ty, 0)
            if v == 'null': return Val('null', ty)
            if v in ('undef', 'poison'): return Val('undef', ty)
            if v == 'zeroinitializer': return Val('zero', ty)
            if v in ('bitcast', 'ptrtoint', 'inttoptr', 'trunc', 'zext', 'sext', 'addrspacecast'):
                self.expect('(')
                src = self.parse_typed_value()
                self.expect('to')
                dst = self.parse_type()
                self.expect(')')
                return Val('cexpr', dst, v, [src])
            if v == 'getelementptr':
                self.accept('inbounds')
                self.expect('(')
                bt = self.parse_type(); self.expect(',')
                ops = [self.parse_typed_value()]
                while self.accept(','):
                    self.accept('inrange')
                    ops.append(self.parse_typed_value())
                self.expect(')')
                rty = self.m.gep_result_type(bt, ops[1:])
                return Val('cexpr', rty, 'getelementptr', ops, bt)
            if v in ('add', 'sub', 'mul', 'and', 'or', 'xor', 'shl', 'lshr', 'ashr'):
                while self.peek()[1] in ('nuw', 'nsw', 'exact'): self.next()
                self.expect('(')
                a = self.parse_typed_value(); self.expect(','); b = self.parse_typed_value(); self.expect(')')
                return Val('cexpr', a.ty, v, [a, b])
            if v == 'icmp':
                pred = self.next()[1]
                self.expect('(')
                a = self.parse_typed_value(); self.expect(','); b = self.parse_typed_value(); self.expect(')')
                return Val('cexpr', self.m.types.int(1), 'icmp', [a, b], pred)
            if v == 'select':
                self.expect('(')
                c = self.parse_typed_value(); self.expect(','); a = self.parse_typed_value(); self.expect(','); b = self.parse_typed_value(); self.expect(')')
                return Val('cexpr', a.ty, 'select', [c, a, b])
            raise IRError('unknown constant word ' + v)
        if v == '{' or (v == '<' and self.peek()[1] == '{'):
            packed = (v == '<')
            if packed: self.next()
            ops = []
            if not self.accept('}'):
                while True:
                    ops.append(self.parse_typed_value())
                    if self.accept('}'): break
                    self.expect(',')
            if packed: self.expect('>')
            return Val('agg', ty, None, ops)
        if v == '[':
            ops = []
            if not self.accept(']'):
                while True:
                    ops.append(self.parse_typed_value())
                    if self.accept(']'): break
                    self.expect(',')
            return Val('agg', ty, None, ops)
        raise IRError('bad value token %r %r' % (k, v))

# --------------------------------------------------------------------------
# module
# --------------------------------------------------------------------------
class Global:
    def __init__(self, name):
        self.name = name; self.ty = None; self.init = None; self.const = False; self.is_decl = False
        self.linkage = set(); self.alias_of = None; self.cname = None

class Function:
    def __init__(self, name):
        self.name = name; self.ty = None; self.params = []; self.param_info = []; self.blocks = None; self.attrs = set()
        self.cname = None; self.is_decl = True; self.linkage = set(); self.lines = None

class Module:
    def __init__(self):
        self.types = Types()
        self.globals = {}
        self.funcs = {}
        self.attr_groups = {}
        self.ctors = []

    def gep_result_type(self, base_ty, idx_ops):
        # idx_ops[0] indexes the pointer itself
        t = base_ty
        for op in idx_ops[1:]:
            if t.kind == 'struct':
                if op.kind != 'int': raise IRError('non-constant struct index')
                t = t.fields[op.v]
            elif t.kind == 'array':
                t = t.elem
            else:
                raise IRError('gep into ' + t.key())
        return self.types.ptr(t)

    def parse(self, text):
        lines = text.split('\n')
        i = 0
        n = len(lines)
        while i < n:
            ln = lines[i]
            i += 1
            s = ln.strip()
            if not s or s.startswith(';'):
                continue
            if s.startswith('source_filename') or s.startswith('target ') or s.startswith('!') or s.startswith('$'):
                continue
            if s.startswith('module asm'):
                raise IRError('module asm')
            if s.startswith('attributes #'):
                m = re.match(r'attributes (#\d+) = \{(.*)\}', s)
                self.attr_groups[m.group(1)] = set(re.findall(r'(?<!")\b[a-z_]+\b(?!")', re.sub(r'"[^"]*"(="[^"]*")?', '', m.group(2))))
                continue
            if s.startswith('%'):
                toks = tokenize(s)
                p = Parser(self, toks)
                name = unquote(p.next()[1]); p.expect('='); p.expect('type')
                st = self.types.named_struct(name)
                if p.peek()[1] == 'opaque':
                    continue
                body = p.parse_type()
                st.fields = body.fields; st.packed = body.packed; st.opaque = False
                continue
            if s.startswith('@'):
                self.parse_global(s)
                continue
            if s.startswith('declare'):
                self.parse_func_header(s, True)
                continue
            if s.startswith('define'):
                f = self.parse_func_header(s, False)
                body = []
                while i < n and lines[i].rstrip() != '}':
                    body.append(lines[i]); i += 1
                i += 1
                f.lines = body
                continue
            raise IRError('unknown top-level line: ' + s[:120])

    def parse_global(self, s):
        toks = tokenize(s)
        p = Parser(self, toks)
        name = unquote(p.next()[1]); p.expect('=')
        g = Global(name)
        while p.peek()[0] == 'word' and p.peek()[1] in LINKAGE:
            g.linkage.add(p.next()[1])
            if p.accept('('):
                p.next(); p.expect(')')
        kw = p.next()[1]
        if kw == 'alias':
            p.parse_type(); p.expect(',')
            if p.peek()[0] == 'word' and p.peek()[1] in ('bitcast', 'getelementptr', 'addrspacecast'):
                tv = p.parse_value(None)
            else:
                tv = p.parse_typed_value()
            g.alias_of = tv
            g.ty = tv.ty.elem
            self.globals[name] = g
            return
        if kw not in ('global', 'constant'):
            raise IRError('global kind ' + kw + ' in ' + s[:100])
        g.const = (kw == 'constant')
        g.ty = p.parse_type()
        if p.at_end() or p.peek()[1] == ',':
            g.is_decl = True
        else:
            g.init = p.parse_value(g.ty)
        if 'external' in g.linkage or 'extern_weak' in g.linkage:
            if g.init is None: g.is_decl = True
        self.globals[name] = g
        if name == '@llvm.global_ctors' and g.init is not None and g.init.kind == 'agg':
            for e in g.init.ops:
                prio = e.ops[0].v
                fn = e.ops[1]
                while fn.kind == 'cexpr': fn = fn.ops[0]
                self.ctors.append((prio, fn.v))

    def parse_func_header(self, s, is_decl):
        toks = tokenize(s)
        p = Parser(self, toks)
        p.next()
        f = None
        linkage = set()
        while True:
            k, v = p.peek()
            if k == 'word' and (v in LINKAGE or v in CALLCONV):
                linkage.add(v); p.next()
            else:
                break
        p.skip_param_attrs()
        ret = p.parse_type()
        # parse_type has swallowed "(params...)" if name came first? no: name follows the return type
        name = unquote(p.next()[1])
        p.expect('(')
        params = []; ptypes = []; pinfo = []; va = False
        if not p.accept(')'):
            while True:
                if p.accept('...'):
                    va = True
                else:
                    t = p.parse_type()
                    info = p.skip_param_attrs()
                    pn = None
                    if p.peek()[0] == 'local':
                        pn = unquote(p.next()[1])
                    ptypes.append(t); params.append(pn); pinfo.append(info)
                if p.accept(')'): break
                p.expect(',')
        f = Function(name)
        f.ty = self.types.func(ret, ptypes, va)
        f.params = params; f.param_info = pinfo; f.is_decl = is_decl; f.linkage = linkage
        # trailing: attrs
        while not p.at_end():
            k, v = p.next()
            if k == 'attr':
                f.attrs |= self.attr_groups.get(v, set()) or {('#', v)}
            elif k == 'word' and v in ('nounwind', 'noreturn', 'readnone', 'readonly'):
                f.attrs.add(v)
            elif v == '{':
                break
        if name in self.funcs and not self.funcs[name].is_decl and is_decl:
            return self.funcs[name]
        self.funcs[name] = f
        return f

    def resolve_attrs(self):
        for f in self.funcs.values():
            new = set()
            for a in f.attrs:
                if isinstance(a, tuple):
                    new |= self.attr_groups.get(a[1], set())
                else:
                    new.add(a)
            f.attrs = new

# --------------------------------------------------------------------------
# C emission
# --------------------------------------------------------------------------
C_KEYWORDS = {'auto', 'break', 'case', 'char', 'const', 'continue', 'default', 'do', 'double', 'else', 'enum', 'extern', 'float',
              'for', 'goto', 'if', 'int', 'long', 'register', 'return', 'short', 'signed', 'sizeof', 'static', 'struct', 'switch',
              'typedef', 'union', 'unsigned', 'void', 'volatile', 'while', 'inline', 'restrict', 'main'}

# libc entry points that CBMC gives built-in meanings we do not want (its abort() is assume(false) and would hide aborts)
CLASHING_EXTERNALS = {'__assert_fail': 'vf_assert_fail', 'abort': 'vf_abort_call', 'exit': 'vf_exit_call', '_exit': 'vf_exit_call',
                      'memcpy': 'vf_libc_memcpy', 'memmove': 'vf_libc_memmove', 'memset': 'vf_libc_memset'}

def sanitize(name):
    s = re.sub(r'[^A-Za-z0-9_]', '_', name)
    if not s or s[0].isdigit(): s = '_' + s
    return s

NOTHROW_EXTERNALS_PREFIX = ('__gmpz_', '__gmpn_', '__gmp_', 'gcry_', 'gpg_', 'vf_', '__cxa_allocate', '__cxa_begin', '__cxa_end',
                            '__cxa_free', '__cxa_guard', '__cxa_atexit', 'mem', 'str', '__CPROVER')

class Emitter:
    def __init__(self, mod, entry, replace, drop, extra_roots):
        self.m = mod; self.entry = entry; self.replace = replace; self.drop = set(drop)
        self.out = []
        self.gnames = {}
        self.used_cnames = set()
        self.typeinfo_ids = {}
        self.extra_roots = extra_roots
        self.tyemitted_name = set(); self.tyemitted_def = set(); self.tyinprog = set()
        self.tylines = []
        self.tycount = 0
        self.str_lits = {}

    # ---- names
    def gname(self, name):
        if name in self.gnames: return self.gnames[name]
        base = name[1:]
        if base in self.replace:
            c = self.gname('@' + self.replace[base])
            self.gnames[name] = c
            return c
        base = CLASHING_EXTERNALS.get(base, base)
        c = sanitize(base)
        if re.fullmatch(r'[A-Za-z_][A-Za-z0-9_]*', base) and base not in C_KEYWORDS:
            c = base
        else:
            c = 'g_' + c
        while c in self.used_cnames:
            c += '_'
        self.used_cnames.add(c)
        self.gnames[name] = c
        return c

    # ---- types
    def cty(self, t):
        """C type name (always a plain identifier or builtin)"""
        if t.cname:
            return t.cname
        k = t.kind
        if k == 'void': t.cname = 'void'
        elif k == 'int':
            b = t.bits
            if b <= 8: t.cname = 'u8'
            elif b <= 16: t.cname = 'u16'
            elif b <= 32: t.cname = 'u32'
            elif b <= 64: t.cname = 'u64'
            elif b <= 128: t.cname = 'u128'
            else: raise IRError('int width %d' % b)
        elif k in ('double', 'x86_fp80'): t.cname = 'double'
        elif k == 'float': t.cname = 'float'
        elif k == 'ptr':
            self.tycount += 1
            nm = 'p%d_t' % self.tycount
            t.cname = nm
            e = t.elem
            if e.kind == 'void' or (e.kind == 'struct' and e.opaque and False):
                self.tylines.append('typedef void *%s;' % nm)
            else:
                en = self.cty_name_only(e)
                self.tylines.append('typedef %s *%s;' % (en, nm))
        elif k == 'array':
            self.tycount += 1
            nm = 'a%d_t' % self.tycount
            t.cname = nm
            self.need_def(t.elem)
            cnt = t.count
            self.tylines.append('typedef %s %s[%d];' % (self.cty(t.elem), nm, cnt if cnt > 0 else 0))
        elif k == 'struct':
            self.tycount += 1
            if t.name:
                nm = 's_' + sanitize(t.name[1:])
                while nm in self.used_cnames: nm += '_'
                self.used_cnames.add(nm)
            else:
                nm = 'l%d_t' % self.tycount
            t.cname = nm
            self.tylines.append('typedef struct %s %s;' % (nm, nm))
        elif k == 'func':
            self.tycount += 1
            nm = 'f%d_t' % self.tycount
            t.cname = nm
            ret = self.cty(t.ret)
            ps = [self.cty(p) for p in t.params]
            if t.vararg: ps.append('u64 *')
            self.tylines.append('typedef %s %s(%s);' % (ret, nm, ', '.join(ps) if ps else 'void'))
        elif k in ('label', 'metadata', 'token'):
            raise IRError('C type of ' + k)
        else:
            raise IRError('C type of ' + k)
        return t.cname

    def cty_name_only(self, t):
        return self.cty(t)

    def need_def(self, t):
        """make sure the complete definition of t has been emitted"""
        if t.kind == 'struct':
            if id(t) in self.tyemitted_def: return
            if t.opaque:
                self.cty(t); return
            if id(t) in self.tyinprog:
                raise IRError('recursive by-value struct ' + t.key())
            self.tyinprog.add(id(t))
            nm = self.cty(t)
            for f in t.fields:
                if f.kind in ('struct', 'array'): self.need_def(f)
                else: self.cty(f)
            body = ' '.join('%s f%d;' % (self.cty(f), i) for i, f in enumerate(t.fields))
            if not t.fields: body = ''
            self.tylines.append('struct %s%s { %s };' % ('__attribute__((packed)) ' if t.packed else '', nm, body))
            self.tyemitted_def.add(id(t))
            self.tyinprog.discard(id(t))
        elif t.kind == 'array':
            self.need_def(t.elem); self.cty(t)
        else:
            self.cty(t)

    def is_signed_needed(self): pass

    def sty(self, t):
        b = t.bits
        if b <= 8: return 's8'
        if b <= 16: return 's16'
        if b <= 32: return 's32'
        if b <= 64: return 's64'
        return 's128'

    @staticmethod
    def cwidth(b):
        for w in (8, 16, 32, 64, 128):
            if b <= w: return w
        raise IRError('width')

    def mask(self, expr, t):
        """normalise an unsigned expression to t.bits"""
        b = t.bits
        w = self.cwidth(b)
        if b == w:
            return '(%s)(%s)' % (self.cty(t), expr)
        return '(%s)((%s) & %s)' % (self.cty(t), expr, self.intlit((1 << b) - 1, w))

    def intlit(self, v, w):
        if w <= 32: return '%dU' % v
        if w <= 64: return '%dUL' % v
        hi = v >> 64; lo = v & ((1 << 64) - 1)
        return '((((u128)%dUL) << 64) | (u128)%dUL)' % (hi, lo)

    def sx(self, expr, t):
        """signed view of an unsigned expression of type t"""
        b = t.bits; w = self.cwidth(b)
        if b == w:
            return '(%s)(%s)' % (self.sty(t), expr)
        # sign-extend from b bits
        return '((%s)((%s)(%s) << %d) >> %d)' % (self.sty(t), self.cty(t), expr, w - b, w - b)

# the remainder of the emitter (values, instructions, functions) is in FnEmitter below

class FnEmitter:
    def __init__(self, E, f):
        self.E = E; self.m = E.m; self.f = f
        self.lnames = {}
        self.used = set()
        self.decls = []     # (ctype, name)
        self.body = []
        self.ltypes = {}
        self.blocks = []    # (label, [instr token lists])
        self.phis = {}      # block label -> list of (dest, ty, {pred: valtoks})
        self.tmpc = 0
        self.refs = set()   # globals referenced

    def lname(self, name):
        if name in self.lnames: return self.lnames[name]
        c = 'v' + sanitize(name[1:])
        while c in self.used: c += '_'
        self.used.add(c)
        self.lnames[name] = c
        return c

    def label(self, name):
        return 'L' + sanitize(name[1:])

    def tmp(self, cty):
        self.tmpc += 1
        n = 't%d_' % self.tmpc
        self.decls.append((cty, n))
        return n

    # ---- value rendering
    def val(self, v):
        E = self.E
        k = v.kind
        t = v.ty
        if k == 'int':
            if t.kind == 'int':
                w = E.cwidth(t.bits)
                x = v.v & ((1 << t.bits) - 1)
                return '(%s)%s' % (E.cty(t), E.intlit(x, w))
            raise IRError('int constant of type ' + t.key())
        if k == 'float':
            s = v.v
            if s.startswith('0x'):
                import struct
                if s[2] in 'KLMHR': raise IRError('float const ' + s)
                d = struct.unpack('>d', bytes.fromhex(s[2:].rjust(16, '0')))[0]
                return repr(d)
            return s
        if k == 'null':
            return '((%s)0)' % E.cty(t)
        if k == 'undef' or k == 'zero':
            if t.kind in ('int', 'double', 'float'): return '(%s)0' % E.cty(t)
            if t.kind == 'ptr': return '((%s)0)' % E.cty(t)
            E.need_def(t)
            return '(%s){0}' % E.cty(t) if t.kind == 'struct' else self.zero_agg(t)
        if k == 'local':
            return self.lname(v.v)
        if k == 'global':
            return self.gref(v.v, t)
        if k == 'cexpr':
            return self.cexpr(v)
        if k == 'agg' or k == 'cstr':
            raise IRError('aggregate constant used as operand')
        raise IRError('val kind ' + k)

    def zero_agg(self, t):
        raise IRError('zero aggregate operand of type ' + t.key())

    def gref(self, name, t):
        """address of global/function `name`, as a value of pointer type t"""
        E = self.E
        self.refs.add(name)
        g = self.m.globals.get(name)
        if g is not None and g.alias_of is not None:
            tgt = g.alias_of
            return '((%s)%s)' % (E.cty(t), self.val(tgt))
        cn = E.gname(name)
        return '((%s)&%s)' % (E.cty(t), cn)

    def cexpr(self, v):
        E = self.E
        op = v.v
        if op in ('bitcast', 'addrspacecast'):
            return '((%s)%s)' % (E.cty(v.ty), self.val(v.ops[0]))
        if op == 'ptrtoint':
            return '((%s)(u64)%s)' % (E.cty(v.ty), self.val(v.ops[0]))
        if op == 'inttoptr':
            return '((%s)(u64)%s)' % (E.cty(v.ty), self.val(v.ops[0]))
        if op == 'getelementptr':
            return self.gep(v.extra, v.ops[0], v.ops[1:], v.ty)
        if op in ('add', 'sub', 'mul', 'and', 'or', 'xor', 'shl', 'lshr'):
            return self.binop(op, v.ops[0], v.ops[1], v.ty)
        if op == 'icmp':
            return self.icmp(v.extra, v.ops[0], v.ops[1])
        if op == 'select':
            return '(%s ? %s : %s)' % (self.val(v.ops[0]), self.val(v.ops[1]), self.val(v.ops[2]))
        if op in ('trunc', 'zext', 'sext'):
            return self.cast(op, v.ops[0], v.ty)
        raise IRError('constant expression ' + op)

    def gep(self, base_ty, ptr, idxs, rty):
        E = self.E
        E.need_def(base_ty)
        p = self.val(ptr)
        def idx(o):
            if o.kind == 'int':
                x = o.v
                if o.ty.bits < 64 and x >= (1 << (o.ty.bits - 1)): x -= (1 << o.ty.bits)
                if x >= (1 << 63): x -= (1 << 64)
                return str(x)
            return '(s64)' + E.sx(self.val(o), o.ty) if o.ty.bits != 64 else '(s64)' + self.val(o)
        first = idxs[0]
        allzero = all(o.kind == 'int' and o.v == 0 for o in idxs)
        if len(idxs) == 1:
            if first.kind == 'int' and first.v == 0:
                return p
            return '(&(%s)[%s])' % (p, idx(first))
        s = '(%s)[%s]' % (p, idx(first))
        t = base_ty
        for o in idxs[1:]:
            if t.kind == 'struct':
                s += '.f%d' % o.v
                t = t.fields[o.v]
            elif t.kind == 'array':
                s += '[%s]' % idx(o)
                t = t.elem
            else:
                raise IRError('gep walk')
        # &x.f where x.f is an array decays badly in C for `&arr` (type pointer-to-array) - which is what LLVM means too.
        return '((%s)&%s)' % (E.cty(rty), s)

    def binop(self, op, a, b, t, flags=()):
        E = self.E
        if t.kind in ('double', 'float'):
            cop = {'fadd': '+', 'fsub': '-', 'fmul': '*', 'fdiv': '/'}[op]
            return '(%s %s %s)' % (self.val(a), cop, self.val(b))
        A = self.val(a); B = self.val(b)
        w = E.cwidth(t.bits)
        wt = 'u32' if w < 32 else E.cty(t)   # compute in at least 32 bits, unsigned
        if op in ('add', 'sub', 'mul', 'and', 'or', 'xor'):
            cop = {'add': '+', 'sub': '-', 'mul': '*', 'and': '&', 'or': '|', 'xor': '^'}[op]
            return E.mask('(%s)%s %s (%s)%s' % (wt, A, cop, wt, B), t)
        # LLVM shifts by >= width yield poison, and -O1 code computes such values speculatively (guarded by a select);
        # they are made total here (result 0 resp. sign fill) so that the engine's undefined-shift check is not triggered by dead values
        bw = t.bits
        if op == 'shl':
            return E.mask('((%s) < %d ? ((%s)%s << (%s)) : (%s)0)' % (B, bw, wt, A, B, wt), t)
        if op == 'lshr':
            return E.mask('((%s) < %d ? ((%s)%s >> (%s)) : (%s)0)' % (B, bw, wt, A, B, wt), t)
        if op == 'ashr':
            return E.mask('(%s)((%s) < %d ? (%s >> (%s)) : (%s >> %d))' % (wt, B, bw, E.sx(A, t), B, E.sx(A, t), bw - 1), t)
        if op == 'udiv':
            return E.mask('(%s)%s / (%s)%s' % (wt, A, wt, B), t)
        if op == 'urem':
            return E.mask('(%s)%s %% (%s)%s' % (wt, A, wt, B), t)
        if op == 'sdiv':
            return E.mask('(%s)(%s / %s)' % (wt, E.sx(A, t), E.sx(B, t)), t)
        if op == 'srem':
            return E.mask('(%s)(%s %% %s)' % (wt, E.sx(A, t), E.sx(B, t)), t)
        raise IRError('binop ' + op)

    def icmp(self, pred, a, b):
        E = self.E
        t = a.ty
        A = self.val(a); B = self.val(b)
        if t.kind == 'ptr':
            cop = {'eq': '==', 'ne': '!=', 'ult': '<', 'ule': '<=', 'ugt': '>', 'uge': '>=', 'slt': '<', 'sle': '<=', 'sgt': '>', 'sge': '>='}[pred]
            if pred in ('eq', 'ne'):
                return '(u8)((void*)%s %s (void*)%s)' % (A, cop, B)
            return '(u8)((char*)%s %s (char*)%s)' % (A, cop, B)
        if pred in ('eq', 'ne', 'ult', 'ule', 'ugt', 'uge'):
            cop = {'eq': '==', 'ne': '!=', 'ult': '<', 'ule': '<=', 'ugt': '>', 'uge': '>='}[pred]
            return '(u8)(%s %s %s)' % (A, cop, B)
        cop = {'slt': '<', 'sle': '<=', 'sgt': '>', 'sge': '>='}[pred]
        return '(u8)(%s %s %s)' % (E.sx(A, t), cop, E.sx(B, t))

    def cast(self, op, a, dt):
        E = self.E
        A = self.val(a)
        if op == 'trunc':
            return E.mask(A, dt)
        if op == 'zext':
            return '(%s)%s' % (E.cty(dt), A)
        if op == 'sext':
            return E.mask('(%s)%s' % (E.sty(dt), E.sx(A, a.ty)), dt)
        raise IRError('cast ' + op)

# --------------------------------------------------------------------------
# function body translation
# --------------------------------------------------------------------------
INTRINSIC_DROP = ('llvm.lifetime.', 'llvm.dbg.', 'llvm.experimental.noalias.scope.decl', 'llvm.assume', 'llvm.va_end',
                  'llvm.stackrestore', 'llvm.donothing', 'llvm.invariant.', 'llvm.prefetch', 'llvm.var.annotation')

class FnTranslator(FnEmitter):
    def join_lines(self):
        """group physical lines into instructions and basic blocks"""
        blocks = []
        cur = None
        lines = self.f.lines
        i = 0
        first_label = None
        while i < len(lines):
            raw = lines[i]; i += 1
            s = raw.strip()
            if not s or s.startswith(';'):
                continue
            m = re.match(r'^("(?:[^"\\]|\\.)*"|[-a-zA-Z$._0-9]+):', s)
            if m and not raw.startswith('  '):
                lab = m.group(1)
                cur = ('%' + (lab[1:-1] if lab.startswith('"') else lab), [])
                blocks.append(cur)
                continue
            if cur is None:
                # implicit entry label = number of params (unnamed) ... find it lazily
                cur = (None, [])
                blocks.append(cur)
            # continuation handling
            if re.match(r'^(%\S+ = )?(tail |musttail |notail )?invoke ', s) or s.startswith('invoke '):
                s2 = lines[i].strip(); i += 1
                s = s + ' ' + s2
            elif re.match(r'^switch ', s) and not s.rstrip().endswith(']'):
                while True:
                    s2 = lines[i].strip(); i += 1
                    s += ' ' + s2
                    if s2.startswith(']'): break
            elif re.search(r'= landingpad ', s):
                while i < len(lines) and re.match(r'^\s+(cleanup|catch|filter)\b', lines[i]):
                    s += ' ' + lines[i].strip(); i += 1
            cur[1].append(s)
        return blocks

    def translate(self):
        E = self.E; f = self.f
        blocks = self.join_lines()
        # entry block label: unnamed => %N where N = number of unnamed values so far (params)
        if blocks[0][0] is None:
            cnt = sum(1 for p in f.params if p is None or re.fullmatch(r'%\d+', p))
            blocks[0] = ('%' + str(cnt), blocks[0][1])
        # parameters
        pnames = []
        unnamed = 0
        for i, (pn, pt) in enumerate(zip(f.params, f.ty.params)):
            if pn is None:
                pn = '%' + str(unnamed)
            if re.fullmatch(r'%\d+', pn): unnamed += 1
            pnames.append(pn)
            self.ltypes[pn] = pt
        self.pnames = pnames
        # first pass: tokenise, collect result types & phis
        parsed = []
        for lab, instrs in blocks:
            pl = []
            for s in instrs:
                toks = tokenize(s)
                pl.append(toks)
            parsed.append((lab, pl))
        self.parsed = parsed
        # typed allocation peephole: result of operator new / malloc that is bitcast to exactly one T* becomes
        # malloc(sizeof(T) * (size / sizeof(T))) so that the engine creates a typed object (pointer fields stored in
        # untyped byte arrays lose their provenance and explode the encoding)
        self.cast_types = {}
        for lab, pl in parsed:
            for toks in pl:
                if len(toks) > 6 and toks[1][1] == '=' and toks[2][1] == 'bitcast' and toks[3][1] == 'i8' and toks[4][1] == '*' and toks[5][0] == 'local':
                    try:
                        pp = Parser(self.m, toks, self); pp.i = 3
                        pp.parse_type(); src = unquote(pp.next()[1]); pp.expect('to'); dt = pp.parse_type()
                        if dt.kind == 'ptr' and not (dt.elem.kind == 'int' and dt.elem.bits == 8):
                            self.cast_types.setdefault(src, []).append(dt.elem)
                    except IRError:
                        pass
        out = self.body
        # pre-scan phis (need all preds)
        for lab, pl in parsed:
            for toks in pl:
                if len(toks) > 3 and toks[1][1] == '=' and toks[2][1] == 'phi':
                    p = Parser(self.m, toks, self)
                    dest = unquote(p.next()[1]); p.next(); p.next()
                    ty = p.parse_type()
                    inc = []
                    while True:
                        p.expect('[')
                        v = p.parse_value(ty); p.expect(',')
                        pred = unquote(p.next()[1]); p.expect(']')
                        inc.append((pred, v))
                        if not p.accept(','): break
                    self.phis.setdefault(lab, []).append((dest, ty, inc))
                    self.declare(dest, ty)
        for bi, (lab, pl) in enumerate(parsed):
            out.append('%s: ;' % self.label(lab))
            self.curlab = lab
            for toks in pl:
                self.instr(toks)
        return self

    def declare(self, name, ty):
        if name in self.ltypes and name in self.lnames:
            return self.lnames[name]
        self.ltypes[name] = ty
        n = self.lname(name)
        if ty.kind != 'void':
            self.E.need_def(ty)
            self.decls.append((self.E.cty(ty), n))
        return n

    def edge(self, target):
        """statements to execute when taking the edge curlab -> target (phi copies), followed by goto"""
        ph = self.phis.get(target)
        L = self.label(target)
        if not ph:
            return 'goto %s;' % L
        assigns = []
        for dest, ty, inc in ph:
            v = None
            for pred, val in inc:
                if pred == self.curlab:
                    v = val; break
            if v is None:
                raise IRError('phi without incoming for ' + self.curlab)
            assigns.append((self.lname(dest), ty, v))
        dests = {a[0] for a in assigns}
        need_tmp = len(assigns) > 1 and any(a[2].kind == 'local' and self.lname(a[2].v) in dests for a in assigns)
        s = ''
        if need_tmp:
            tmps = []
            for d, ty, v in assigns:
                t = self.tmp(self.E.cty(ty))
                s += '%s = %s; ' % (t, self.pval(v)); tmps.append(t)
            for (d, ty, v), t in zip(assigns, tmps):
                s += '%s = %s; ' % (d, t)
        else:
            for d, ty, v in assigns:
                s += '%s = %s; ' % (d, self.pval(v))
        return '{ %sgoto %s; }' % (s, L)

    def pval(self, v):
        # value in phi/store/ret position: aggregates (zeroinitializer/undef) allowed for struct types
        if v.kind in ('undef', 'zero') and v.ty.kind == 'struct':
            self.E.need_def(v.ty)
            return '(%s){0}' % self.E.cty(v.ty)
        return self.val(v)

    def dummy_ret(self):
        rt = self.f.ty.ret
        if rt.kind == 'void': return 'return;'
        if rt.kind == 'struct':
            return 'return (%s){0};' % self.E.cty(rt)
        return 'return (%s)0;' % self.E.cty(rt)

    def instr(self, toks):
        E = self.E; out = self.body
        p = Parser(self.m, toks, self)
        dest = None
        if toks[0][0] == 'local' and len(toks) > 1 and toks[1][1] == '=':
            dest = unquote(p.next()[1]); p.next()
        k, op = p.next()
        while op in ('tail', 'musttail', 'notail'):
            k, op = p.next()
        if op == 'phi':
            return
        if op == 'br':
            if p.accept('label'):
                out.append(self.edge(unquote(p.next()[1])))
            else:
                c = p.parse_typed_value(); p.expect(','); p.expect('label'); a = unquote(p.next()[1]); p.expect(','); p.expect('label'); b = unquote(p.next()[1])
                out.append('if (%s) %s else %s' % (self.val(c), self.edge(a), self.edge(b)))
            return
        if op == 'ret':
            t = p.parse_type()
            if t.kind == 'void': out.append('return;')
            else:
                v = p.parse_value(t)
                out.append('return %s;' % self.pval(v))
            return
        if op == 'unreachable':
            out.append('vf_unreachable(); %s' % self.dummy_ret())
            return
        if op == 'switch':
            v = p.parse_typed_value(); p.expect(','); p.expect('label'); dflt = unquote(p.next()[1]); p.expect('[')
            s = 'switch (%s) { ' % self.val(v)
            while not p.accept(']'):
                cv = p.parse_typed_value(); p.expect(','); p.expect('label'); tgt = unquote(p.next()[1])
                s += 'case %s: %s ' % (E.intlit(cv.v & ((1 << cv.ty.bits) - 1), E.cwidth(cv.ty.bits)), self.edge(tgt))
            s += 'default: %s }' % self.edge(dflt)
            out.append(s)
            return
        if op == 'resume':
            v = p.parse_typed_value()
            out.append('vf_resume(%s.f0); %s' % (self.val(v), self.dummy_ret()))
            return
        if op == 'store':
            p.accept('volatile'); p.accept('atomic')
            v = p.parse_typed_value(); p.expect(','); ptr = p.parse_typed_value()
            E.need_def(v.ty)
            out.append('*%s = %s;' % (self.val(ptr), self.pval(v)))
            return
        if op == 'load':
            p.accept('volatile'); p.accept('atomic')
            t = p.parse_type(); p.expect(','); ptr = p.parse_typed_value()
            d = self.declare(dest, t)
            out.append('%s = *%s;' % (d, self.val(ptr)))
            return
        if op == 'alloca':
            p.accept('inalloca')
            t = p.parse_type()
            cnt = None
            if p.accept(','):
                if p.peek()[1] != 'align':
                    cnt = p.parse_typed_value()
            E.need_def(t)
            d = self.declare(dest, self.m.types.ptr(t))
            if cnt is None or (cnt.kind == 'int'):
                n = 1 if cnt is None else cnt.v
                mem = d + '_m'
                if n == 1:
                    self.decls.append((E.cty(t), mem))
                    out.append('%s = &%s;' % (d, mem))
                else:
                    self.decls.append((E.cty(t), '%s[%d]' % (mem, n)))
                    out.append('%s = &%s[0];' % (d, mem))
            else:
                out.append('%s = (%s)vf_alloca(sizeof(%s) * (u64)%s);' % (d, E.cty(self.m.types.ptr(t)), E.cty(t), self.val(cnt)))
            return
        if op == 'getelementptr':
            p.accept('inbounds')
            bt = p.parse_type(); p.expect(',')
            ptr = p.parse_typed_value()
            idxs = []
            while p.accept(','):
                idxs.append(p.parse_typed_value())
            rty = self.m.gep_result_type(bt, idxs)
            d = self.declare(dest, rty)
            out.append('%s = %s;' % (d, self.gep(bt, ptr, idxs, rty)))
            return
        if op in ('add', 'sub', 'mul', 'and', 'or', 'xor', 'shl', 'lshr', 'ashr', 'udiv', 'urem', 'sdiv', 'srem', 'fadd', 'fsub', 'fmul', 'fdiv'):
            while p.peek()[1] in ('nuw', 'nsw', 'exact') or p.peek()[1] in FMF: p.next()
            t = p.parse_type(); a = p.parse_value(t); p.expect(','); b = p.parse_value(t)
            d = self.declare(dest, t)
            out.append('%s = %s;' % (d, self.binop(op, a, b, t)))
            return
        if op == 'icmp':
            pred = p.next()[1]
            t = p.parse_type(); a = p.parse_value(t); p.expect(','); b = p.parse_value(t)
            d = self.declare(dest, self.m.types.int(1))
            out.append('%s = %s;' % (d, self.icmp(pred, a, b)))
            return
        if op == 'fcmp':
            while p.peek()[1] in FMF: p.next()
            pred = p.next()[1]
            t = p.parse_type(); a = p.parse_value(t); p.expect(','); b = p.parse_value(t)
            d = self.declare(dest, self.m.types.int(1))
            cop = {'oeq': '==', 'one': '!=', 'olt': '<', 'ole': '<=', 'ogt': '>', 'oge': '>=', 'ueq': '==', 'une': '!=', 'ult': '<', 'ule': '<=', 'ugt': '>', 'uge': '>='}[pred]
            out.append('%s = (u8)(%s %s %s);' % (d, self.val(a), cop, self.val(b)))
            return
        if op in ('trunc', 'zext', 'sext', 'bitcast', 'ptrtoint', 'inttoptr', 'sitofp', 'uitofp', 'fptosi', 'fptoui', 'fpext', 'fptrunc'):
            a = p.parse_typed_value(); p.expect('to'); dt = p.parse_type()
            d = self.declare(dest, dt)
            if op in ('trunc', 'zext', 'sext'):
                out.append('%s = %s;' % (d, self.cast(op, a, dt)))
            elif op == 'bitcast':
                if dt.kind != 'ptr' or a.ty.kind != 'ptr':
                    if dt.kind == 'int' and a.ty.kind == 'int':
                        out.append('%s = %s;' % (d, self.val(a)))
                    else:
                        raise IRError('non-pointer bitcast')
                else:
                    out.append('%s = (%s)%s;' % (d, E.cty(dt), self.val(a)))
            elif op == 'ptrtoint':
                out.append('%s = %s;' % (d, E.mask('(u64)%s' % self.val(a), dt)))
            elif op == 'inttoptr':
                out.append('%s = (%s)(u64)%s;' % (d, E.cty(dt), self.val(a)))
            elif op == 'sitofp':
                out.append('%s = (%s)%s;' % (d, E.cty(dt), E.sx(self.val(a), a.ty)))
            elif op == 'fptosi':
                out.append('%s = %s;' % (d, E.mask('(%s)%s' % (E.sty(dt), self.val(a)), dt)))
            else:
                out.append('%s = (%s)%s;' % (d, E.cty(dt), self.val(a)))
            return
        if op == 'select':
            while p.peek()[1] in FMF: p.next()
            c = p.parse_typed_value(); p.expect(','); a = p.parse_typed_value(); p.expect(','); b = p.parse_typed_value()
            d = self.declare(dest, a.ty)
            out.append('%s = (%s ? %s : %s);' % (d, self.val(c), self.pval(a), self.pval(b)))
            return
        if op == 'freeze':
            a = p.parse_typed_value()
            d = self.declare(dest, a.ty)
            out.append('%s = %s;' % (d, self.pval(a)))
            return
        if op == 'extractvalue':
            a = p.parse_typed_value()
            t = a.ty; path = ''
            while p.accept(','):
                ix = int(p.next()[1])
                if t.kind == 'struct': path += '.f%d' % ix; t = t.fields[ix]
                elif t.kind == 'array': path += '[%d]' % ix; t = t.elem
            d = self.declare(dest, t)
            out.append('%s = %s%s;' % (d, self.pval(a), path) if a.kind == 'local' else '%s = (%s)%s;' % (d, self.pval(a), path))
            return
        if op == 'insertvalue':
            a = p.parse_typed_value(); p.expect(','); v = p.parse_typed_value()
            t = a.ty; path = ''
            while p.accept(','):
                ix = int(p.next()[1])
                if t.kind == 'struct': path += '.f%d' % ix; t = t.fields[ix]
                elif t.kind == 'array': path += '[%d]' % ix; t = t.elem
            d = self.declare(dest, a.ty)
            out.append('%s = %s; %s%s = %s;' % (d, self.pval(a), d, path, self.pval(v)))
            return
        if op == 'landingpad':
            t = p.parse_type()
            cleanup = False; clauses = []
            while not p.at_end():
                w = p.next()[1]
                if w == 'cleanup': cleanup = True
                elif w == 'catch':
                    cv = p.parse_typed_value()
                    while cv.kind == 'cexpr': cv = cv.ops[0]
                    clauses.append(None if cv.kind == 'null' else cv.v)
                elif w == 'filter':
                    raise IRError('landingpad filter')
            d = self.declare(dest, t)
            E.need_def(t)
            s = '%s.f0 = (u8*)vf_exc_enter_lpad(); %s.f1 = (u32)0; ' % (d, d)
            # selector: first matching clause wins
            conds = []
            for c in clauses:
                if c is None:
                    conds.append(('1', '1'))  # catch-all: selector value irrelevant but non-zero
                else:
                    self.refs.add(c)
                    tid = E.typeinfo_id(c)
                    conds.append(('vf_exc_matches(%d)' % tid, str(tid)))
            chain = ''
            for cond, sel in conds:
                chain += 'if (%s) %s.f1 = (u32)%s; else ' % (cond, d, sel)
            chain += '{ }'
            out.append(s + chain)
            return
        if op in ('call', 'invoke'):
            self.call(p, dest, op)
            return
        if op == 'va_arg':
            raise IRError('va_arg instruction')
        if op in ('fence',):
            return
        raise IRError('unknown instruction %s in %s' % (op, ' '.join(t[1] for t in toks)[:200]))

    def call(self, p, dest, op):
        E = self.E; out = self.body
        while p.peek()[0] == 'word' and (p.peek()[1] in CALLCONV or p.peek()[1] in FMF): p.next()
        p.skip_param_attrs()
        rt = p.parse_type()   # may be the full function type for varargs / indirect
        fty = None
        if rt.kind == 'func':
            fty = rt; rt = fty.ret
        elif rt.kind == 'ptr' and rt.elem.kind == 'func' and False:
            pass
        callee = p.parse_value(None)
        p.expect('(')
        args = []
        if not p.accept(')'):
            while True:
                t = p.parse_type()
                if t.kind == 'metadata':
                    # metadata argument (debug intrinsics): skip to matching
                    p.next(); args.append(None)
                else:
                    p.skip_param_attrs()
                    args.append(p.parse_value(t))
                if p.accept(')'): break
                p.expect(',')
        nounwind_site = False
        normal = unwind = None
        while not p.at_end():
            k, v = p.next()
            if k == 'attr':
                if 'nounwind' in self.m.attr_groups.get(v, set()): nounwind_site = True
            elif v == 'to':
                p.expect('label'); normal = unquote(p.next()[1]); p.expect('unwind'); p.expect('label'); unwind = unquote(p.next()[1])
            elif v == '[':
                raise IRError('operand bundle')
        # direct callee?
        direct = None
        cv = callee
        while cv.kind == 'cexpr' and cv.v == 'bitcast': cv = cv.ops[0]
        if cv.kind == 'global': direct = cv.v
        name = direct[1:] if direct else None
        if name == '__vf_check_readable':
            out.append('VF_CHECK_READABLE(%s, %s);' % (self.val(args[0]), self.val(args[1])))
            if op == 'invoke': out.append(self.edge(normal))
            return
        if name == '__vf_model_bound':
            out.append('VF_MODEL_BOUND("MODEL-BOUND container capacity exceeded (raise MINISTL_MINCAP)");')
            if op == 'invoke': out.append(self.edge(normal))
            return
        if name in ('vf_assert', 'vf_witness'):
            lit = self.cstring_of(args[-1])
            if name == 'vf_assert':
                out.append('VF_ASSERT(%s, "%s");' % (self.val(args[0]), lit))
            else:
                out.append('VF_WITNESS("WITNESS %s");' % lit)
            if op == 'invoke': out.append(self.edge(normal))
            return
        # intrinsics
        if name and name.startswith('llvm.'):
            self.intrinsic(name, args, dest, rt)
            if op == 'invoke': out.append(self.edge(normal))
            return
        vararg = fty.vararg if fty else False
        fdecl = self.m.funcs.get(direct) if direct else None
        if fdecl is not None and fty is None:
            vararg = fdecl.ty.vararg
        argv = []
        nfixed = len(fty.params) if fty else (len(fdecl.ty.params) if fdecl else len(args))
        for a in args[:nfixed]:
            argv.append(self.pval(a))
        pre = ''
        if vararg:
            extra = args[nfixed:]
            if extra:
                allptr = all(a.ty.kind == 'ptr' for a in extra)
                arr = self.tmp('u64')
                # 8-byte slots; an all-pointer pack is declared as an array of pointers so that the engine keeps
                # pointer provenance (pointer -> integer -> pointer round trips are opaque to it)
                self.decls[-1] = ('void *' if allptr else 'u64', '%s[%d]' % (arr, len(extra)))
                for i, a in enumerate(extra):
                    if allptr: pre += '%s[%d] = (void*)%s; ' % (arr, i, self.val(a))
                    elif a.ty.kind == 'ptr': pre += '%s[%d] = (u64)%s; ' % (arr, i, self.val(a))
                    elif a.ty.kind == 'int': pre += '%s[%d] = (u64)%s; ' % (arr, i, self.val(a))
                    else: raise IRError('vararg of type ' + a.ty.key())
                argv.append('(u64*)' + arr)
            else:
                argv.append('(u64*)0')
        if direct:
            self.refs.add(direct)
            g = self.m.globals.get(direct)
            if g is not None and g.alias_of is not None:
                tgt = g.alias_of
                while tgt.kind == 'cexpr': tgt = tgt.ops[0]
                direct = tgt.v; name = direct[1:]; self.refs.add(direct)
                fdecl = self.m.funcs.get(direct)
            # call through declared prototype if types agree, else cast
            want = fty if fty else self.m.types.func(rt, [a.ty for a in args[:nfixed]], vararg)
            if fdecl is not None and fdecl.ty is want:
                fn = E.gname(direct)
            else:
                fn = '((%s*)&%s)' % (E.cty(want), E.gname(direct))
        else:
            want = fty if fty else self.m.types.func(rt, [a.ty for a in args], False)
            fn = '((%s*)%s)' % (E.cty(want), self.val(callee))
        callexpr = '%s(%s)' % (fn, ', '.join(argv))
        if name in ('_Znwm', '_Znam', 'malloc', '__cxa_allocate_exception') and dest and len(args) == 1:
            cts = self.cast_types.get(dest, [])
            keys = {t.key() for t in cts}
            if len(keys) == 1 and cts[0].kind in ('struct', 'ptr', 'int', 'array') and not (cts[0].kind == 'struct' and cts[0].opaque):
                T = cts[0]; E.need_def(T)
                callexpr = '(%s)vf_typed_alloc(malloc(sizeof(%s) * ((u64)%s / sizeof(%s))))' % (E.cty(rt), E.cty(T), argv[0], E.cty(T))
        if rt.kind != 'void':
            d = self.declare(dest, rt) if dest else None
            stmt = pre + ('%s = %s;' % (d, callexpr) if d else '(void)%s;' % callexpr)
        else:
            stmt = pre + callexpr + ';'
        out.append(stmt)
        # exception propagation
        may_throw = True
        if nounwind_site: may_throw = False
        if fdecl is not None and 'nounwind' in fdecl.attrs: may_throw = False
        if name and fdecl is not None and fdecl.is_decl and name.startswith(NOTHROW_EXTERNALS_PREFIX) and name not in ('__cxa_throw', '__cxa_rethrow'):
            may_throw = False
        if name in ('__cxa_throw', '__cxa_rethrow', '__cxa_bad_cast', '__cxa_bad_typeid', '__cxa_throw_bad_array_new_length'):
            may_throw = True
        if op == 'invoke':
            if may_throw:
                out.append('if (vf_exc_pending) %s else %s' % (self.edge(unwind), self.edge(normal)))
            else:
                out.append(self.edge(normal))
        else:
            if may_throw:
                out.append('if (vf_exc_pending) { %s }' % self.dummy_ret())

    def cstring_of(self, v):
        while v.kind == 'cexpr': v = v.ops[0]
        if v.kind != 'global': raise IRError('label argument is not a string literal')
        g = self.m.globals[v.v]
        if g.init is None or g.init.kind != 'cstr': raise IRError('label argument is not a string literal')
        bs = g.init.v
        txt = ''.join(chr(b) for b in bs if b != 0)
        return re.sub(r'[^A-Za-z0-9_ .,:;=<>()\[\]+*/!?#-]', '_', txt)

    def intrinsic(self, name, args, dest, rt):
        E = self.E; out = self.body
        if name.startswith(INTRINSIC_DROP):
            return
        A = [self.val(a) if a is not None else None for a in args]
        base = name
        if name.startswith('llvm.memcpy.') :
            out.append('vf_memcpy((void*)%s, (const void*)%s, (u64)%s);' % (A[0], A[1], A[2])); return
        if name.startswith('llvm.memmove.'):
            out.append('vf_memmove((void*)%s, (const void*)%s, (u64)%s);' % (A[0], A[1], A[2])); return
        if name.startswith('llvm.memset.'):
            out.append('vf_memset((void*)%s, (int)%s, (u64)%s);' % (A[0], A[1], A[2])); return
        d = self.declare(dest, rt) if dest and rt.kind != 'void' else None
        def m2(opn):
            t = args[0].ty
            if opn in ('umax', 'umin'):
                c = '>' if opn == 'umax' else '<'
                return '((%s %s %s) ? %s : %s)' % (A[0], c, A[1], A[0], A[1])
            c = '>' if opn == 'smax' else '<'
            return '((%s %s %s) ? %s : %s)' % (E.sx(A[0], t), c, E.sx(A[1], t), A[0], A[1])
        for opn in ('umax', 'umin', 'smax', 'smin'):
            if name.startswith('llvm.%s.' % opn):
                out.append('%s = %s;' % (d, m2(opn))); return
        if name.startswith('llvm.abs.'):
            t = args[0].ty
            out.append('%s = %s;' % (d, E.mask('(%s < 0) ? (%s)0 - %s : %s' % (E.sx(A[0], t), E.cty(t), A[0], A[0]), t))); return
        if name.startswith('llvm.eh.typeid.for'):
            cv = args[0]
            while cv.kind == 'cexpr': cv = cv.ops[0]
            out.append('%s = (u32)%d;' % (d, E.typeinfo_id(cv.v))); return
        if name.startswith('llvm.stacksave'):
            out.append('%s = (%s)0;' % (d, E.cty(rt))); return
        if name.startswith('llvm.va_start'):
            out.append('vf_va_start((void*)%s, vf_va);' % A[0]); return
        if name.startswith('llvm.va_copy'):
            out.append('vf_memcpy((void*)%s, (const void*)%s, 24);' % (A[0], A[1])); return
        if name == 'llvm.trap':
            out.append('vf_trap();'); return
        if name.startswith('llvm.expect.'):
            out.append('%s = %s;' % (d, A[0])); return
        if name.startswith('llvm.objectsize.'):
            out.append('%s = %s;' % (d, E.mask('~0UL', rt))); return
        if name.startswith('llvm.is.constant.'):
            out.append('%s = 0;' % d); return
        m = re.match(r'llvm\.(u|s)(add|sub|mul)\.with\.overflow\.i(\d+)', name)
        if m:
            t = args[0].ty
            E.need_def(rt)
            sgn, o, bits = m.group(1), m.group(2), int(m.group(3))
            if sgn == 'u' and bits <= 64:
                wide = 'u128'
                cop = {'add': '+', 'sub': '-', 'mul': '*'}[o]
                tmp = self.tmp(wide)
                if o == 'sub':
                    out.append('%s.f0 = %s; %s.f1 = (u8)(%s < %s);' % (d, E.mask('%s - %s' % (A[0], A[1]), t), d, A[0], A[1]))
                else:
                    out.append('%s = (u128)%s %s (u128)%s; %s.f0 = %s; %s.f1 = (u8)((%s >> %d) != 0);' % (tmp, A[0], cop, A[1], d, E.mask(tmp, t), d, tmp, bits))
                return
            if sgn == 's' and bits <= 64:
                tmp = self.tmp('s128')
                cop = {'add': '+', 'sub': '-', 'mul': '*'}[o]
                out.append('%s = (s128)%s %s (s128)%s; %s.f0 = %s; %s.f1 = (u8)(%s != (s128)%s);' % (
                    tmp, E.sx(A[0], t), cop, E.sx(A[1], t), d, E.mask('(u128)' + tmp, t), d, tmp, E.sx('%s.f0' % d, t)))
                return
        m = re.match(r'llvm\.(u|s)(add|sub)\.sat\.i(\d+)', name)
        if m and m.group(1) == 'u':
            t = args[0].ty
            if m.group(2) == 'sub':
                out.append('%s = (%s > %s) ? %s : (%s)0;' % (d, A[0], A[1], E.mask('%s - %s' % (A[0], A[1]), t), E.cty(t)))
            else:
                out.append('%s = %s; if (%s < %s) %s = %s;' % (d, E.mask('%s + %s' % (A[0], A[1]), t), d, A[0], d, E.mask('~0UL', t)))
            return
        m = re.match(r'llvm\.(ctlz|cttz|ctpop|bswap)\.i(\d+)', name)
        if m:
            out.append('%s = (%s)vf_%s%s((u64)%s);' % (d, E.cty(rt), m.group(1), m.group(2), A[0])); return
        m = re.match(r'llvm\.fsh(l|r)\.i(\d+)', name)
        if m:
            bits = int(m.group(2)); t = args[0].ty
            if m.group(1) == 'l':
                out.append('%s = ((%s %% %d) == 0) ? %s : %s;' % (d, A[2], bits, A[0], E.mask('(%s << (%s %% %d)) | (%s >> (%d - (%s %% %d)))' % (A[0], A[2], bits, A[1], bits, A[2], bits), t)))
            else:
                out.append('%s = ((%s %% %d) == 0) ? %s : %s;' % (d, A[2], bits, A[1], E.mask('(%s >> (%s %% %d)) | (%s << (%d - (%s %% %d)))' % (A[1], A[2], bits, A[0], bits, A[2], bits), t)))
            return
        raise IRError('intrinsic ' + name)

# --------------------------------------------------------------------------
# whole-module emission
# --------------------------------------------------------------------------
PRELUDE = r'''
/* generated by ir2c.py - do not edit */
typedef unsigned char u8; typedef unsigned short u16; typedef unsigned int u32; typedef unsigned long u64; typedef unsigned __int128 u128;
typedef signed char s8; typedef short s16; typedef int s32; typedef long s64; typedef __int128 s128;
extern int vf_exc_pending;
void *vf_exc_enter_lpad(void);
int vf_exc_matches(int tid);
void vf_resume(void *obj);
void vf_unreachable(void);
void vf_trap(void);
void *vf_alloca(u64 n);
void *malloc(u64);
#ifdef __CPROVER__
#define vf_typed_alloc(p) (p)
#else
void *vf_typed_alloc(void *p);
#endif
void vf_va_start(void *ap, u64 *va);
void *vf_memcpy(void *d, const void *s, u64 n);
void *vf_memmove(void *d, const void *s, u64 n);
void *vf_memset(void *d, int c, u64 n);
u64 vf_ctlz8(u64); u64 vf_ctlz16(u64); u64 vf_ctlz32(u64); u64 vf_ctlz64(u64);
u64 vf_cttz8(u64); u64 vf_cttz16(u64); u64 vf_cttz32(u64); u64 vf_cttz64(u64);
u64 vf_ctpop8(u64); u64 vf_ctpop16(u64); u64 vf_ctpop32(u64); u64 vf_ctpop64(u64);
u64 vf_bswap16(u64); u64 vf_bswap32(u64); u64 vf_bswap64(u64);
#ifdef __CPROVER__
#ifdef VF_WITNESS
#define VF_ASSERT(c, msg) ((void)(c))
#else
#define VF_ASSERT(c, msg) __CPROVER_assert((c), msg)
#endif
#define VF_MODEL_BOUND(msg) do { __CPROVER_assert(0, msg); __CPROVER_assume(0); } while (0)
#define VF_CHECK_READABLE(p, n) do { u64 n_ = (n); if (n_ != 0) { __CPROVER_assert(n_ < (1UL << 40) && __CPROVER_r_ok((p), n_), "UB: iterator range handed to a std container is not readable memory (out of bounds or reversed)"); __CPROVER_assume(n_ < (1UL << 40) && __CPROVER_r_ok((p), n_)); } } while (0)
#ifdef VF_WITNESS
#define VF_WITNESS(msg) __CPROVER_assert(0, msg)
#else
#define VF_WITNESS(msg) ((void)0)
#endif
#else
void vf_assert_native(int c, const char *label);
#define VF_ASSERT(c, msg) vf_assert_native((c), msg)
#define VF_WITNESS(msg) ((void)0)
#define VF_MODEL_BOUND(msg) ((void)0)
#define VF_CHECK_READABLE(p, n) ((void)0)
#endif
'''

def Emitter_typeinfo_id(self, name):
    if name not in self.typeinfo_ids:
        self.typeinfo_ids[name] = len(self.typeinfo_ids) + 1
    return self.typeinfo_ids[name]
Emitter.typeinfo_id = Emitter_typeinfo_id

def const_init(E, fe, v):
    """C initialiser text for constant v (used for globals)"""
    t = v.ty
    k = v.kind
    if k == 'zero' or k == 'undef':
        if t.kind in ('struct', 'array'): return '{0}'
        return '0'
    if k == 'cstr':
        return '{' + ','.join(str(b) for b in v.v) + '}'
    if k == 'agg':
        if not v.ops: return '{0}'
        return '{' + ', '.join(const_init(E, fe, o) for o in v.ops) + '}'
    if k == 'null':
        return '0'
    return fe.val(v)

def emit_module(mod, entry, replace, drop, roots, info_path):
    E = Emitter(mod, entry, replace, drop, roots)
    mod.resolve_attrs()
    # reachability from entry (+ global ctors of reachable TUs: all ctors are kept, they are cheap)
    work = []
    def fname(n): return n if n.startswith('@') else '@' + n
    for r in [entry] + list(roots):
        work.append(fname(r))
    for prio, fn in sorted(mod.ctors, key=lambda x: x[0]):
        work.append(fn)
    seen = set()
    ftrans = {}
    gl_needed = []
    dummy_f = Function('@__const'); dummy_f.ty = mod.types.func(mod.types.simple('void'), [], False)
    ginit = {}
    while work:
        n = work.pop()
        if n in seen: continue
        seen.add(n)
        base = n[1:]
        if base in replace:
            n2 = '@' + replace[base]
            work.append(n2)
            continue
        if n in mod.funcs:
            f = mod.funcs[n]
            if f.is_decl or base in E.drop or base.startswith('llvm.'):
                continue
            ft = FnTranslator(E, f)
            try:
                ft.translate()
            except IRError as e:
                raise IRError('in function %s: %s' % (n, e))
            ftrans[n] = ft
            work.extend(ft.refs)
        elif n in mod.globals:
            g = mod.globals[n]
            fe = FnEmitter(E, dummy_f)
            if g.alias_of is not None:
                tgt = g.alias_of
                while tgt.kind == 'cexpr': tgt = tgt.ops[0]
                work.append(tgt.v)
                continue
            if g.init is not None:
                txt = const_init(E, fe, g.init)
                ginit[n] = txt
                work.extend(fe.refs)
        else:
            raise IRError('reference to unknown symbol ' + n)
    # typeinfo hierarchy for exception matching
    ti_base = {}
    for n, g in mod.globals.items():
        if n.startswith('@_ZTI') and g.init is not None and g.init.kind == 'agg' and len(g.init.ops) >= 3:
            b = g.init.ops[2]
            while b.kind == 'cexpr': b = b.ops[0]
            if b.kind == 'global' and b.v.startswith('@_ZTI'):
                ti_base[n] = b.v
    # ---- output
    o = [PRELUDE]
    body = []
    # globals: declarations
    gdecl = []; gdef = []
    for n in sorted(seen):
        if n in mod.globals:
            g = mod.globals[n]
            if g.alias_of is not None: continue
            if n.startswith('@llvm.'): continue
            E.need_def(g.ty)
            cn = E.gname(n)
            ct = E.cty(g.ty)
            if n in ginit:
                gdecl.append('extern %s %s;' % (ct, cn))
                gdef.append('%s %s = %s;' % (ct, cn, ginit[n]))
            elif n.startswith('@_ZTVN10__cxxabiv1') or (n.startswith('@_ZTI') and g.is_decl) or n == '@__dso_handle':
                gdecl.append('extern %s %s;' % (ct, cn))
                gdef.append('%s %s;' % (ct, cn))
            else:
                gdecl.append('extern %s %s;' % (ct, cn))
    fproto = []
    for n in sorted(seen):
        if n in mod.funcs and '@' + replace.get(n[1:], n[1:]) == n:
            f = mod.funcs[n]
            if n[1:].startswith('llvm.'): continue
            E.need_def(f.ty.ret)
            for pt in f.ty.params: E.need_def(pt)
            ps = [E.cty(pt) for pt in f.ty.params]
            if f.ty.vararg: ps.append('u64 *vf_va')
            fproto.append('%s %s(%s);' % (E.cty(f.ty.ret), E.gname(n), ', '.join(ps) if ps else 'void'))
    fdefs = []
    for n, ft in ftrans.items():
        f = ft.f
        ps = []
        prologue = []
        for pn, pt, pi in zip(ft.pnames, f.ty.params, f.param_info):
            ps.append('%s %s' % (E.cty(pt), ft.lname(pn)))
            if 'byval' in pi:
                bt = pi['byval']; E.need_def(bt)
                cp = ft.lname(pn) + '_bv'
                ft.decls.append((E.cty(bt), cp))
                prologue.append('%s = *%s; %s = &%s;' % (cp, ft.lname(pn), ft.lname(pn), cp))
        if f.ty.vararg: ps.append('u64 *vf_va')
        lines = ['%s %s(%s) {' % (E.cty(f.ty.ret), E.gname(n), ', '.join(ps) if ps else 'void')]
        for ct, nm in ft.decls:
            lines.append('  %s %s;' % (ct, nm))
        lines.extend('  ' + x for x in prologue)
        lines.extend('  ' + x for x in ft.body)
        lines.append('}')
        fdefs.append('\n'.join(lines))
    # typeinfo ids & matcher
    tim = ['int vf_exc_type_id(void *ti) {']
    for n, i in E.typeinfo_ids.items():
        tim.append('  if (ti == (void*)&%s) return %d;' % (E.gname(n), i))
    tim.append('  return 0; }')
    tim.append('void *vf_exc_type_base(void *ti) {')
    for n, b in ti_base.items():
        if n in seen and b in seen:
            tim.append('  if (ti == (void*)&%s) return (void*)&%s;' % (E.gname(n), E.gname(b)))
    tim.append('  return (void*)0; }')
    tim.append('int vf_exc_kind_of(void *ti) { int i; for (i = 0; i < 6 && ti; ++i) {')
    if '@_ZTISt9exception' in seen:
        tim.append('  if (ti == (void*)&%s) return 1;' % E.gname('@_ZTISt9exception'))
    if '@_ZTIb' in seen:
        tim.append('  if (ti == (void*)&%s) return 2;' % E.gname('@_ZTIb'))
    tim.append('  ti = vf_exc_type_base(ti); } return 3; }')
    # make sure typeinfo globals referenced only via ids are declared
    for n in list(E.typeinfo_ids) + list(ti_base) + list(ti_base.values()):
        pass
    ctor_lines = ['void vf_global_ctors(void) {']
    for prio, fn in sorted(mod.ctors, key=lambda x: x[0]):
        if fn in ftrans:
            ctor_lines.append('  %s();' % E.gname(fn))
    ctor_lines.append('}')
    ctor_lines.append('void vf_harness(void) { %s(); }' % E.gname('@' + entry.lstrip('@')))
    o.extend(E.tylines)
    o.extend(gdecl); o.extend(fproto); o.extend(gdef)
    o.extend(tim)
    o.extend(fdefs)
    o.extend(ctor_lines)
    if info_path:
        json.dump({'functions': sorted(n[1:] for n in ftrans), 'externals': sorted(n[1:] for n in seen if n in mod.funcs and n not in ftrans and not n.startswith('@llvm.')),
                   'globals': sorted(n[1:] for n in seen if n in mod.globals)}, open(info_path, 'w'), indent=0)
    return '\n'.join(o) + '\n'

def main():
    ap = argparse.ArgumentParser()
    ap.add_argument('input'); ap.add_argument('-o', '--output', required=True)
    ap.add_argument('--entry', required=True)
    ap.add_argument('--replace', action='append', default=[])
    ap.add_argument('--drop', action='append', default=[])
    ap.add_argument('--root', action='append', default=[])
    ap.add_argument('--info')
    a = ap.parse_args()
    mod = Module()
    mod.parse(open(a.input).read())
    replace = dict(x.split('=', 1) for x in a.replace)
    try:
        txt = emit_module(mod, a.entry, replace, a.drop, a.root, a.info)
    except IRError as e:
        sys.stderr.write('ir2c: ERROR: %s\n' % e)
        sys.exit(2)
    open(a.output, 'w').write(txt)

if __name__ == '__main__':
    sys.setrecursionlimit(10000)
    main()
