#!/bin/bash
# run_lanes.sh <tier> : all claimed checks of one tier against /repo, three lanes in parallel (used to regenerate the committed evidence)
T=${1:-quick}; cd /verif; mkdir -p /tmp/vf_lanes
lane() { for p in "$@"; do s=$(date +%s); VF_JOBS=${LANE_JOBS:-5} ./vf check $p --tier $T > /tmp/vf_lanes/${p}_$T.log 2>&1; rc=$?; e=$(date +%s)
  echo "$p tier=$T rc=$rc wall=$((e-s))s viol=$(grep -c '^VIOLATION' /tmp/vf_lanes/${p}_$T.log) known=$(grep -c '^KNOWN-FINDING' /tmp/vf_lanes/${p}_$T.log) inconclusive=$(grep -c '^INCONCLUSIVE' /tmp/vf_lanes/${p}_$T.log)"; done; }
lane C03 C05 C06 C07 C16 C19 C20 &
lane C18 C14 C12 C01 &
lane C10 C04 C02 C08 C09 C11 C13 C15 C17 &
wait; echo LANES-DONE
