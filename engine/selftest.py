#!/usr/bin/env python3
"""setup-time self test: (1) the CBMC-side GMP model against plain C arithmetic, (2) ir2c + runtime on a tiny C++ program
(exceptions, containers, streams) executed natively and under CBMC."""
import subprocess, sys, os, tempfile, shutil
V = os.path.dirname(os.path.dirname(os.path.abspath(__file__)))
M = os.path.join(V, 'models')
ok = True
r = subprocess.run(['cbmc', os.path.join(M, 'selftest_gmp.c'), os.path.join(M, 'gmp_model.c'), '-I', M, '-DVF_BITS=10', '--unwind', '20', '--no-standard-checks'],
                   stdout=subprocess.PIPE, stderr=subprocess.STDOUT, text=True)
good = 'VERIFICATION SUCCESSFUL' in r.stdout
print('gmp model selftest under cbmc:', 'ok' if good else 'FAILED'); ok &= good
if not good: print(r.stdout[-1500:])
d = tempfile.mkdtemp(prefix='vf_selftest_')
try:
    src = os.path.join(d, 't.cc')
    open(src, 'w').write('''
#include <vector>
#include <string>
#include <map>
#include <sstream>
#include <stdexcept>
#include "vf.h"
static int thrower(int x) { if (x > 5) throw std::invalid_argument("big"); if (x == 3) throw false; return x + 1; }
extern "C" void vf_h(void) {
  unsigned a = vf_nondet_u32();
  std::vector<int> v; for (unsigned i = 0; i < (a & 3); ++i) v.push_back((int)i);
  std::map<std::string,int> m; m["x"] = 1; m["a"] = 2;
  std::stringstream ss; ss << "k" << v.size() << std::endl; std::string w; ss >> w;
  int r = 0; try { r = thrower((int)(a & 7)); } catch (std::logic_error &e) { r = 100; } catch (bool b) { r = 200; }
  vf_assert(r != 0, "r nonzero");
  vf_assert(w.size() == 2 && w[0] == 'k' && w[1] == (char)('0' + (a & 3)), "stream");
  vf_assert(m.begin()->first == "a", "map order");
  vf_assert(r != 200 || (a & 7) == 3, "bool catch");
  vf_assert(r != 100 || (a & 7) > 5, "logic catch");
  vf_witness("end");
}
''')
    F = ['clang++-14', '-std=c++11', '-O1', '-fno-vectorize', '-fno-slp-vectorize', '-fno-unroll-loops', '-fno-access-control', '-nostdinc++', '-w',
         '-isystem', os.path.join(V, 'ministl'), '-I', M, '-S', '-emit-llvm']
    subprocess.check_call(F + ['-o', os.path.join(d, 't.ll'), src])
    subprocess.check_call(F + ['-o', os.path.join(d, 'rt.ll'), os.path.join(V, 'ministl', 'ministl_rt.cc')])
    subprocess.check_call(['llvm-link-14', '-S', '-o', os.path.join(d, 'all.ll'), os.path.join(d, 't.ll'), os.path.join(d, 'rt.ll')])
    subprocess.check_call([sys.executable, os.path.join(V, 'engine', 'ir2c.py'), os.path.join(d, 'all.ll'), '-o', os.path.join(d, 'out.c'), '--entry', 'vf_h'])
    r = subprocess.run(['cbmc', os.path.join(d, 'out.c'), os.path.join(M, 'vf_rt.c'), '-I', M, '--unwind', '10', '--unwinding-assertions', '--no-malloc-may-fail',
                        '--drop-unused-functions', '--function', 'main'], stdout=subprocess.PIPE, stderr=subprocess.STDOUT, text=True)
    good = 'VERIFICATION SUCCESSFUL' in r.stdout
    print('ir2c + runtime selftest under cbmc:', 'ok' if good else 'FAILED'); ok &= good
    if not good: print(r.stdout[-1500:])
finally:
    shutil.rmtree(d, ignore_errors=True)
sys.exit(0 if ok else 1)
