#!/bin/bash
# seed_try.sh <seed-id> <property> [vf args...] : run a check against a private patched copy of /repo (VF_REPO), leaving /repo untouched
# (used while other runs need /repo unchanged; engine/seed_run_all.sh does the same against /repo itself with git apply / checkout)
N=$1; P=$2; shift 2
R=/tmp/seedrepo_$N; rm -rf $R; mkdir -p $R && cp -r /repo/src /repo/libTMCG_config.h $R/ && (cd $R && patch -s -p1 < /verif/seeded/$N/patch.diff) || { echo "patch failed"; exit 2; }
cd /verif && VF_REPO=$R ./vf check $P --tier ${TIER:-quick} "$@" > /verif/seeded/$N/check.log 2>&1; RC=$?
rm -rf $R
echo "$N property=$P rc=$RC violations=$(grep -c '^VIOLATION' /verif/seeded/$N/check.log) inconclusive=$(grep -c '^INCONCLUSIVE' /verif/seeded/$N/check.log)"
