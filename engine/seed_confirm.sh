#!/bin/bash
# seed_confirm.sh <worktree-name> <seed-id> <property> [test names...] : confirm a sub-agent's seeded change in its scratch worktree
#  (1) patch applies to a clean tree and the library compiles, (2) listed existing tests pass with it,
#  (3) demo fails with the change and passes without. Writes /verif/seeded/<seed-id>/{patch.diff,demo.cc,build.txt,notes.md,confirm.log}
set -u
WN=$1; N=$2; P=$3; shift 3; TESTS="$@"
W=/tmp/mut/$WN; O=/verif/seeded/$N
mkdir -p $O; cp $W/out/patch.diff $W/out/demo.cc $W/out/build.txt $W/out/notes.md $O/ 2>/dev/null
L=$O/confirm.log; : > $L
cd $W || exit 2
git checkout -q -- src && git apply --check $O/patch.diff >>$L 2>&1 || { echo "PATCH DOES NOT APPLY" | tee -a $L; exit 1; }
BUILD=$(grep -v '^\s*$' $O/build.txt | grep -m1 'g++\|clang++')
echo "== original tree" >>$L
make -C src -j8 >>$L.make 2>&1 || { echo "ORIGINAL BUILD FAILED" | tee -a $L; exit 1; }
( cd $W && eval "$BUILD" ) >>$L 2>&1
DEMO=$(echo "$BUILD" | sed -n 's/.*-o \([^ ]*\).*/\1/p'); [ -z "$DEMO" ] && DEMO=demo
( cd $W && timeout 900 ./$DEMO ) >>$L 2>&1; RC0=$?
echo "demo on original: rc=$RC0" | tee -a $L
echo "== with change" >>$L
git apply $O/patch.diff && make -C src -j8 >>$L.make 2>&1 || { echo "MUTANT BUILD FAILED" | tee -a $L; exit 1; }
( cd $W && eval "$BUILD" ) >>$L 2>&1
( cd $W && timeout 900 ./$DEMO ) >>$L 2>&1; RC1=$?
echo "demo with change: rc=$RC1" | tee -a $L
for t in $TESTS; do
  make -C tests $t >>$L.make 2>&1
  ( cd tests && timeout 3000 ./$t >/dev/null 2>&1 ); echo "existing test $t with change: rc=$?" | tee -a $L
done
rm -f $L.make
[ $RC0 -eq 0 ] && [ $RC1 -ne 0 ] && echo "CONFIRMED demo separates" | tee -a $L
git checkout -q -- src
