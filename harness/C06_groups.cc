// C06: CheckGroup() == specification predicate, CheckElement() == membership, for parameters that are symbolic except for
// the field prime candidate p, which the runner enumerates (one query per p in [0, 2^W)).
#include "vfh_proto.hh"
#include "BarnettSmartVTMF_dlog.hh"
#include "PedersenVSS.hh"
#include "mpz_shash.hh"
#ifndef H_P
#define H_P 23
#endif
#ifndef H_W
#define H_W 5
#endif
#define FSZ 3
#define GSZ 2
static bool is_prime(long n) { if (n < 2) return false; for (long d = 2; d * d <= n; ++d) if (n % d == 0) return false; return true; }
static unsigned bits(long n) { unsigned b = 0; if (n < 0) n = -n; while (n) { ++b; n >>= 1; } return b ? b : 1; }
static long powmod(long b, long e, long m) { long r = 1 % m; b %= m; if (b < 0) b += m; for (int i = 0; i < H_W + 3; ++i) { if (e & 1) r = (r * b) % m; e >>= 1; b = (b * b) % m; } return r; }
static long gcdl(long a, long b) { if (a < 0) a = -a; if (b < 0) b = -b; for (int i = 0; i < 2 * H_W + 6 && b; ++i) { long t = a % b; a = b; b = t; } return a; }
// first verifiable generator for (p, q, k): replay of the library's derivation with the same hash oracle
static long derive_g(mpz_srcptr P, mpz_srcptr Q, long p, long q, long k) {
  std::stringstream U; U << "LibTMCG|" << P << "|" << Q << "|ggen|";
  for (int it = 0; it < 4; ++it) {
    Z foo, g2; tmcg_mpz_shash(foo, U.str());
    long f = foo.get(), cand = powmod(f, k, p);
    mpz_set_si(g2, cand); U << (mpz_srcptr)g2 << "|";
    if (cand != 0 && cand != 1 && cand != p - 1 && powmod(cand, q, p) == 1) return cand;
  }
  vf_assume(0);   // more than 4 candidates: outside the bound
  return -1;
}
// common part of the specification: sizes, p = kq+1, primes, gcd(k,q) = 1
static bool spec_pq(long p, long q, long k) {
  return bits(p) >= FSZ && bits(q) >= GSZ && q > 0 && p == k * q + 1 && is_prime(p) && is_prime(q) && gcdl(q, k) == 1;
}

H_ENTRY(h_vtmf_group) {
  long q = vfh_range(-1, (1L << H_W)), g = vfh_range(-1, (1L << H_W) + 2), k = vfh_range(-1, (1L << H_W));
  bool canonical = vf_nondet_u8() & 1;
  BarnettSmartVTMF_dlog *v = new BarnettSmartVTMF_dlog(FSZ, GSZ, canonical, false);
  mpz_set_si(v->p, H_P); mpz_set_si(v->q, q); mpz_set_si(v->g, g); mpz_set_si(v->k, k);
  bool got = false; H_TRY(got = v->CheckGroup());
  vf_assert(vfh_exc == 0, "CheckGroup returns (no exception) on arbitrary parameters");
  bool spec = spec_pq(H_P, q, k) && g > 1 && g < H_P - 1 && powmod(g, q, H_P) == 1;
  if (spec && canonical) spec = (g == derive_g(v->p, v->q, H_P, q, k));
  vf_assert(got == spec, "BarnettSmartVTMF_dlog::CheckGroup accepts exactly the well-formed parameter sets");
  if (got) {
    long a = vfh_range(-2, H_P + 3); Z A(a);
    bool ce = v->CheckElement(A);
    vf_assert(ce == (a > 0 && a < H_P && powmod(a, q, H_P) == 1), "CheckElement accepts exactly the members of the order-q subgroup in 1..p-1");
  }
  H_END();
}

H_ENTRY(h_pvss_group) {
  long q = vfh_range(-1, (1L << H_W)), g = vfh_range(-1, (1L << H_W) + 2), h = vfh_range(-1, (1L << H_W) + 2);
  Z P(H_P), Q(q), G(g), Hh(h);
  PedersenVSS *v = 0;
  H_TRY(v = new PedersenVSS(3, 1, 0, P, Q, G, Hh, FSZ, GSZ, false, "x"));
  vf_assert(vfh_exc == 0 || vfh_exc == 1, "constructor returns or refuses with a standard exception");
  bool constructed = (vfh_exc == 0 && v != 0);
  bool got = false;
  if (constructed) { H_TRY(got = v->CheckGroup()); vf_assert(vfh_exc == 0, "CheckGroup returns (no exception) on arbitrary parameters"); }
  long k = (q > 0) ? (H_P - 1) / q : 0;
  bool spec = q > 0 && spec_pq(H_P, q, k) && powmod(h, q, H_P) == 1 && powmod(g, q, H_P) == 1 && h > 1 && h < H_P - 1 && g > 1 && g < H_P - 1 && g != h;
  if (spec && constructed) spec = (g == derive_g(v->p, v->q, H_P, q, k));
  vf_assert(got == spec, "PedersenVSS: construction + CheckGroup accept exactly the well-formed parameter sets");
  if (got) {
    long a = vfh_range(-2, H_P + 3); Z A(a);
    bool ce = v->CheckElement(A);
    vf_assert(ce == (a > 0 && a < H_P && powmod(a, q, H_P) == 1), "CheckElement accepts exactly the members of the order-q subgroup in 1..p-1");
  }
  H_END();
}

#include "NaorPinkasEOTP.hh"
#include "JareckiLysyanskayaASTC.hh"
H_ENTRY(h_eotp_group) {
  long q = vfh_range(-1, (1L << H_W)), g = vfh_range(-1, (1L << H_W) + 2);
  Z P(H_P), Q(q), G(g);
  NaorPinkasEOTP *v = 0;
  H_TRY(v = new NaorPinkasEOTP(P, Q, G, FSZ, GSZ));
  vf_assert(vfh_exc == 0 || vfh_exc == 1, "constructor returns or refuses with a standard exception");
  bool constructed = (vfh_exc == 0 && v != 0), got = false;
  if (constructed) { H_TRY(got = v->CheckGroup()); vf_assert(vfh_exc == 0, "CheckGroup returns (no exception) on arbitrary parameters"); }
  long k = (q > 0) ? (H_P - 1) / q : 0;
  bool spec = q > 0 && spec_pq(H_P, q, k) && g > 1 && g < H_P - 1 && powmod(g, q, H_P) == 1;
  vf_assert(got == spec, "NaorPinkasEOTP: construction + CheckGroup accept exactly the well-formed parameter sets");
  if (got) { long a = vfh_range(-2, H_P + 3); Z A(a); vf_assert(v->CheckElement(A) == (a > 0 && a < H_P && powmod(a, q, H_P) == 1), "CheckElement accepts exactly the members of the order-q subgroup in 1..p-1"); }
  H_END();
}
H_ENTRY(h_rvss_group) {
  long q = vfh_range(-1, (1L << H_W)), g = vfh_range(-1, (1L << H_W) + 2), h = vfh_range(-1, (1L << H_W) + 2);
  Z P(H_P), Q(q), G(g), Hh(h);
  JareckiLysyanskayaRVSS *v = 0;
  H_TRY(v = new JareckiLysyanskayaRVSS(2, 0, P, Q, G, Hh, FSZ, GSZ));
  vf_assert(vfh_exc == 0 || vfh_exc == 1, "constructor returns or refuses with a standard exception");
  bool constructed = (vfh_exc == 0 && v != 0), got = false;
  if (constructed) { H_TRY(got = v->CheckGroup()); vf_assert(vfh_exc == 0, "CheckGroup returns (no exception) on arbitrary parameters"); }
  long k = (q > 0) ? (H_P - 1) / q : 0;
  bool spec = q > 0 && spec_pq(H_P, q, k) && powmod(h, q, H_P) == 1 && powmod(g, q, H_P) == 1 && h > 1 && h < H_P - 1 && g > 1 && g < H_P - 1 && g != h;
  vf_assert(got == spec, "JareckiLysyanskayaRVSS: construction + CheckGroup accept exactly the well-formed parameter sets");
  if (got) { long a = vfh_range(-2, H_P + 3); Z A(a); vf_assert(v->CheckElement(A) == (a > 0 && a < H_P && powmod(a, q, H_P) == 1), "CheckElement accepts exactly the members of the order-q subgroup in 1..p-1"); }
  H_END();
}

// ---------------------------------------------------------------- quadratic-residue group G = QR_p, p = 2q+1, p = 7 (mod 8)
#include "BarnettSmartVTMF_dlog_GroupQR.hh"
#include <new>
#ifndef H_ESZ
#define H_ESZ 2
#endif
static long jacobi_l(long a, long p) { // Legendre symbol by Euler's criterion (p an odd prime here)
  long r = powmod(((a % p) + p) % p, (p - 1) / 2, p); return r == 1 ? 1 : (r == 0 ? 0 : -1);
}
H_ENTRY(h_groupqr_group) {
  long q = vfh_range(-1, (1L << H_W)), g = vfh_range(-1, (1L << H_W) + 2);
  // the object is assembled by hand (the generating constructor needs the prime search): base-class part through its
  // non-initialising constructor, then the derived class's vtable and E_size
  BarnettSmartVTMF_dlog_GroupQR *v = (BarnettSmartVTMF_dlog_GroupQR*)::operator new(sizeof(BarnettSmartVTMF_dlog_GroupQR));
  new ((BarnettSmartVTMF_dlog*)v) BarnettSmartVTMF_dlog(FSZ, FSZ - 1, true, false);
  *const_cast<unsigned long*>(&v->E_size) = H_ESZ;
  mpz_set_si(v->p, H_P); mpz_set_si(v->q, q); mpz_set_si(v->g, g); mpz_set_ui(v->k, 2);
  bool got = false; H_TRY(got = v->BarnettSmartVTMF_dlog_GroupQR::CheckGroup());
  vf_assert(vfh_exc == 0, "CheckGroup returns (no exception) on arbitrary parameters");
  bool spec = bits(H_P) >= FSZ && bits(q) >= FSZ - 1 && q > 0 && H_P == 2 * q + 1 && is_prime(H_P) && is_prime(q) && (H_P % 8) == 7
              && g > 1 && g < H_P - 1 && jacobi_l(g, H_P) == 1;
  if (spec) { // canonical generator 2^(2^(|p| - E_size)) mod p
    long e = 1L << (bits(H_P) - H_ESZ); spec = (bits(H_P) >= H_ESZ) && g == powmod(2, e, H_P);
  }
  vf_assert(got == spec, "BarnettSmartVTMF_dlog_GroupQR::CheckGroup accepts exactly p = 2q+1 = 7 (mod 8), p and q prime, g the canonical quadratic residue");
  if (got) {
    long a = vfh_range(-2, H_P + 3); Z A(a);
    bool ce = v->BarnettSmartVTMF_dlog_GroupQR::CheckElement(A);
    vf_assert(ce == (a > 0 && a < H_P && jacobi_l(a, H_P) == 1), "CheckElement accepts exactly the quadratic residues in 1..p-1");
  }
  H_END();
}
