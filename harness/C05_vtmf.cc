// C05 on the discrete-log VTMF: starting from an accepted proof, one value (a transmitted one or a public input) is replaced
// by an arbitrary non-identical value; the verifier may accept only an equivalent representation (for exponents: same
// residue mod q and |value| < q; for everything else: nothing). Hash = collision-free memoised function.
#include "vfh_proto.hh"
#include "BarnettSmartVTMF_dlog.hh"
#include "mpz_spowm.hh"
#ifndef H_P
#define H_P 7
#define H_Q 3
#define H_G 2
#define H_K 2
#endif
static BarnettSmartVTMF_dlog *mkvtmf() {
  BarnettSmartVTMF_dlog *v = new BarnettSmartVTMF_dlog(2, 2, false, false);
  mpz_set_ui(v->p, H_P); mpz_set_ui(v->q, H_Q); mpz_set_ui(v->g, H_G); mpz_set_ui(v->k, H_K);
  tmcg_mpz_fpowm_precompute(v->fpowm_table_g, v->g, v->p, mpz_sizeinbase(v->q, 2L));
  return v;
}
// read n tokens of a transcript into values
static void slurp(std::stringstream &t, long *v, unsigned n) { for (unsigned i = 0; i < n; ++i) { Z x; t >> (mpz_ptr)x; v[i] = x.get(); } }
static long sym_other(long orig) { long v = vfh_range(-2 * H_P, 3 * H_P); vf_assume(v != orig); return v; }
static bool same_class_small(long a, long b) { long d = a - b; if (d < 0) d = -d; long aa = b < 0 ? -b : b; return d % H_Q == 0 && aa < H_Q; }

// key-share NIZK: transcript (h_i, c, r)
H_ENTRY(h_t_nizk) {
  BarnettSmartVTMF_dlog *a = mkvtmf(), *b = mkvtmf();
  a->KeyGenerationProtocol_GenerateKey(); b->KeyGenerationProtocol_GenerateKey();
  std::stringstream t; a->KeyGenerationProtocol_PublishKey(t);
  long v[3]; slurp(t, v, 3);
  unsigned pos = (unsigned)vf_nondet_below(3);
  long nv = sym_other(v[pos]);
  std::stringstream t2; for (unsigned i = 0; i < 3; ++i) vfh_put(t2, i == pos ? nv : v[i]);
  Z hbefore; mpz_set(hbefore, b->h);
  vfh_forbid_on = true; vfh_forbid = (pos == 1) ? nv : v[1];
  bool ok = true;
  H_TRY(ok = b->KeyGenerationProtocol_UpdateKey(t2));
  vf_assert(vfh_exc == 0, "verifier does not throw on an edited key-share proof");
  if (ok) vf_assert(pos == 2 && same_class_small(v[2], nv), "edited key-share proof accepted only for an equivalent response (same residue mod q, |r| < q)");
  else vf_assert(mpz_cmp(hbefore, b->h) == 0, "a refused contribution leaves the common key unchanged");
  H_END();
}

// CP proof: transcript (c, r), public inputs (x, y, gg, hh)
H_ENTRY(h_t_cp) {
  BarnettSmartVTMF_dlog *a = mkvtmf();
  Z alpha, gg, hh, x, y, e1, e2;
  vfh_mpz(alpha, 0, H_Q); vfh_mpz(e1, 1, H_Q); vfh_mpz(e2, 1, H_Q);
  mpz_powm(gg, a->g, e1, a->p); mpz_powm(hh, a->g, e2, a->p);
  mpz_powm(x, gg, alpha, a->p); mpz_powm(y, hh, alpha, a->p);
  std::stringstream t; a->CP_Prove(x, y, gg, hh, alpha, t, false);
  long v[6]; slurp(t, v, 2); v[2] = x.get(); v[3] = y.get(); v[4] = gg.get(); v[5] = hh.get();
  unsigned pos = (unsigned)vf_nondet_below(6);
  long nv = sym_other(v[pos]);
  long w[6]; for (unsigned i = 0; i < 6; ++i) w[i] = (i == pos) ? nv : v[i];
  std::stringstream t2; vfh_put(t2, w[0]); vfh_put(t2, w[1]);
  Z x2(w[2]), y2(w[3]), g2(w[4]), h2(w[5]);
  vfh_forbid_on = true; vfh_forbid = w[0];
  bool ok = true;
  H_TRY(ok = a->CP_Verify(x2, y2, g2, h2, t2, false));
  vf_assert(vfh_exc == 0, "CP_Verify does not throw on an edited proof");
  if (ok) vf_assert(pos == 1 && same_class_small(v[1], nv), "edited CP proof / public input accepted only for an equivalent response");
  H_END();
}

// masking proof: transcript (c, r), public inputs (m, c_1, c_2)
H_ENTRY(h_t_masking) {
  BarnettSmartVTMF_dlog *a = mkvtmf();
  a->KeyGenerationProtocol_GenerateKey(); a->KeyGenerationProtocol_Finalize();
  Z m, c1, c2, r, e;
  vfh_mpz(e, 0, H_Q); mpz_powm(m, a->g, e, a->p);
  a->VerifiableMaskingProtocol_Mask(m, c1, c2, r);
  std::stringstream t; a->VerifiableMaskingProtocol_Prove(m, c1, c2, r, t);
  long v[5]; slurp(t, v, 2); v[2] = m.get(); v[3] = c1.get(); v[4] = c2.get();
  unsigned pos = (unsigned)vf_nondet_below(5);
  long nv = sym_other(v[pos]);
  long w[5]; for (unsigned i = 0; i < 5; ++i) w[i] = (i == pos) ? nv : v[i];
  std::stringstream t2; vfh_put(t2, w[0]); vfh_put(t2, w[1]);
  Z m2(w[2]), d1(w[3]), d2(w[4]);
  vfh_forbid_on = true; vfh_forbid = w[0];
  bool ok = true;
  H_TRY(ok = a->VerifiableMaskingProtocol_Verify(m2, d1, d2, t2));
  vf_assert(vfh_exc == 0, "masking verifier does not throw on an edited proof");
  // the message m is the verifier's own input (not a transmitted value or card component); the verifier works with its residue
  // mod p, so m + k*p is the same statement. Everything else must be refused.
  bool m_same_residue = (pos == 2) && ((nv - v[2]) % H_P == 0);
  if (ok) vf_assert((pos == 1 && same_class_small(v[1], nv)) || m_same_residue, "edited masking proof / card component accepted only for an equivalent response");
  H_END();
}
