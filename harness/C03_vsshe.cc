// C03 / C04 / C05 for Groth's verifiable shuffle of homomorphic encryptions (GrothVSSHE over GrothSKC and the Pedersen
// commitment) and its use by SchindelhauerTMCG::TMCG_{Prove,Verify}StackEquality_Groth*; n = 2 ElGamal ciphertexts.
//
// Transcript of the non-interactive form, n = 2 (token index):
//   0 c   1 c_d   2 E_d.1   3 E_d.2   4 f_1   5 f_2   6 Z   | SKC: 7 c_d   8 c_Delta   9 c_a   10 f_1   11 f_2   12 z   13 f_Delta_1   14 z_Delta
// Fiat-Shamir digests in call order: t_1, t_2, lambda (VSSHE), x, e (SKC); every one is truncated to l_e_nizk = 2*l_e bits.
//
// Exceptional sets that are negligible at real sizes but not at toy size, stated exactly (see notes/shuffle.md):
//   * the verifier REFUSES an honest proof when some f_i = t_pi(i) + d_i (mod q) has fewer than l_e (interactive) resp. l_e_nizk
//     (non-interactive) bits, or when Z = 0 (its checks "2^l_e <= f_i < q", "Z in R_pk"): completeness is asserted as the equivalence
//     accept <=> (all f_i long enough and Z != 0);
//   * the SKC challenge e == 0 (mod q): the verifier runs into assert(mpz_invert(e)) - assumed away (VFS_DIGEST_ASSUME / e drawn nonzero);
//   * wrong witness: accepted only if the challenge t of the falsified position vanishes modulo q;
//   * edited SKC response: accepted only as another representative (same residue, below q) or when the batch-verification coin
//     alpha == 0 (mod q).
#ifndef H_P
#define H_P 11
#define H_Q 5
#define H_G 3
#define H_K 2
#endif
#ifndef H_LE
#define H_LE 1            /* l_e; l_e_nizk = 2 l_e must not exceed |q| (GrothVSSHE::CheckGroup) */
#endif
#define H_LENIZK (2 * H_LE)
// SKC challenge e (shash_2vec with 4 trailing integers, marker -1204) must be a unit modulo q
#define VFS_DIGEST_ASSUME(tag, o) do { if ((tag) == -1204) vf_assume((long)((o) & ((1UL << H_LENIZK) - 1)) % H_Q != 0); } while (0)
// -DH_DX / -DH_DE: a slice pins the two SKC digests x (marker -1203) and e (marker -1204) to concrete values
#if defined(H_DX) && defined(H_DE)
#define VFS_DIGEST_FIX(tag) ((tag) == -1203 ? (long)(H_DX) : ((tag) == -1204 ? (long)(H_DE) : -1L))
#endif
#include "vfh_shuffle.hh"
#include "SchindelhauerTMCG.hh"
#include "BarnettSmartVTMF_dlog.hh"
#include "GrothVSSHE.hh"
#include "mpz_spowm.hh"
#include <new>
#define H_NC 2
#ifndef H_G1COIN
#define H_G1COIN 2        /* Pedersen generators g_i = coin^k mod p: 4 and 9 in p = 11, 4 and 2 in p = 7 */
#define H_G2COIN 3
#endif

static PedersenCommitmentScheme *mkcom(long h) {
  Z P(H_P), Q(H_Q), K(H_K), Hh(h);
  vfh_nfixed = 0; vfh_fixed_used = 0; vfh_fix_next(H_G1COIN); vfh_fix_next(H_G2COIN);
  return new PedersenCommitmentScheme(H_NC, P, Q, K, Hh, 2, 2);
}
// the object is assembled by hand (the stream constructor would read the group back from a byte buffer, which makes the
// modulus symbolic to the engine): same members as GrothVSSHE::GrothVSSHE(n, p, q, k, g, h, l_e, ...) sets up
static GrothVSSHE *mkvsshe(long h) {
  GrothVSSHE *v = (GrothVSSHE*)::operator new(sizeof(GrothVSSHE));
  *const_cast<unsigned long*>(&v->l_e) = H_LE; *const_cast<unsigned long*>(&v->l_e_nizk) = H_LENIZK;
  *const_cast<unsigned long*>(&v->F_size) = 2; *const_cast<unsigned long*>(&v->G_size) = 2;
  mpz_init_set_ui(v->p, H_P); mpz_init_set_ui(v->q, H_Q); mpz_init_set_ui(v->g, H_G); mpz_init_set_si(v->h, h);
  v->com = mkcom(h);
  GrothSKC *s = (GrothSKC*)::operator new(sizeof(GrothSKC));
  *const_cast<unsigned long*>(&s->l_e) = H_LE; *const_cast<unsigned long*>(&s->l_e_nizk) = H_LENIZK;
  s->com = mkcom(h);
  v->skc = s;
  v->fpowm_table_g = new mpz_t[TMCG_MAX_FPOWM_T](); v->fpowm_table_h = new mpz_t[TMCG_MAX_FPOWM_T]();
  tmcg_mpz_fpowm_init(v->fpowm_table_g); tmcg_mpz_fpowm_init(v->fpowm_table_h);
  tmcg_mpz_fpowm_precompute(v->fpowm_table_g, v->g, v->p, mpz_sizeinbase(v->q, 2L));
  tmcg_mpz_fpowm_precompute(v->fpowm_table_h, v->h, v->p, mpz_sizeinbase(v->q, 2L));
  return v;
}
static BarnettSmartVTMF_dlog *mkvtmf(long x) {
  BarnettSmartVTMF_dlog *v = new BarnettSmartVTMF_dlog(2, 2, false, false);
  mpz_set_ui(v->p, H_P); mpz_set_ui(v->q, H_Q); mpz_set_ui(v->g, H_G); mpz_set_ui(v->k, H_K);
  tmcg_mpz_fpowm_precompute(v->fpowm_table_g, v->g, v->p, mpz_sizeinbase(v->q, 2L));
  mpz_set_si(v->x_i, x); mpz_set_si(v->h, vfs_gpow[x]); mpz_set(v->h_i, v->h);
  v->KeyGenerationProtocol_Finalize();
  return v;
}
// key: x in [1, q) (x = 0 gives h = 1, which PedersenCommitmentScheme::CheckGroup refuses); a slice may fix it
static long sym_key() {
#ifdef H_X
  return H_X;
#else
  return vfh_range(1, H_Q);
#endif
}
static unsigned sym_perm(unsigned *pi) {
#ifdef H_PI
  unsigned sw = H_PI;
#else
  unsigned sw = vf_nondet_u8() & 1;
#endif
  pi[0] = sw ? 1 : 0; pi[1] = sw ? 0 : 1; return sw;
}
typedef std::vector<std::pair<mpz_ptr, mpz_ptr> > pairvec;
static mpz_ptr mkz(long v) { mpz_ptr x = new mpz_t(); mpz_init_set_si(x, v); return x; }
static void push_ct(pairvec &v, long c1, long c2) { v.push_back(std::pair<mpz_ptr, mpz_ptr>(mkz(c1), mkz(c2))); }
// statement: input ciphertexts e_i = (g^a_i, g^b_i) arbitrary, output E_i = e_pi(i) * (g^R_i, h^R_i); exponents returned
struct stmt { long a[H_NC], b[H_NC], R[H_NC], A[H_NC], B[H_NC]; unsigned pi[H_NC]; };
static void sym_stmt(stmt &s, long x, pairvec &e, pairvec &E, std::vector<mpz_ptr> &Rv, std::vector<size_t> &piv) {
  sym_perm(s.pi);
  for (unsigned i = 0; i < H_NC; ++i) { s.a[i] = vfh_range(0, H_Q); s.b[i] = vfh_range(0, H_Q); push_ct(e, vfs_gpow[s.a[i]], vfs_gpow[s.b[i]]); }
  for (unsigned i = 0; i < H_NC; ++i) {
    s.R[i] = vfh_range(0, H_Q);
    s.A[i] = vfs_addq(s.a[s.pi[i]], s.R[i], H_Q); s.B[i] = vfs_addq(s.b[s.pi[i]], vfs_mulq(x, s.R[i]), H_Q);
    Rv.push_back(mkz(s.R[i])); piv.push_back(s.pi[i]);
  }
}
static void slurp(std::stringstream &t, long *v, unsigned n) { std::string c = t.str(); std::stringstream cp(c); for (unsigned i = 0; i < n; ++i) { Z x; cp >> (mpz_ptr)x; v[i] = x.get(); } }
static bool bits_ok(long f, unsigned long le) { long a = f < 0 ? -f : f; return a >= (1L << (le - 1)) || le <= 1; }   // mpz_sizeinbase(f, 2) >= le  (sizeinbase(0) = 1)

// ------------------------------------------------------------------------------------------------ C03, top level, non-interactive
// real TMCG_MixStack produces the output stack; TMCG_ProveStackEquality_Groth_noninteractive -> TMCG_VerifyStackEquality_Groth_noninteractive
H_ENTRY(h_stackeq_groth_ni) {
  vfs_tables(H_P, H_Q, H_G);
  long x = sym_key();
  BarnettSmartVTMF_dlog *vtmf = mkvtmf(x);
  GrothVSSHE *vs = mkvsshe(vfs_gpow[x]);
  SchindelhauerTMCG *tmcg = new SchindelhauerTMCG(2, 2, 1);
  TMCG_Stack<VTMF_Card> s, s2;
  for (unsigned i = 0; i < H_NC; ++i) { VTMF_Card c; mpz_set_si(c.c_1, vfs_gpow[vfh_range(0, H_Q)]); mpz_set_si(c.c_2, vfs_gpow[vfh_range(0, H_Q)]); s.push(c); }
  unsigned pi[H_NC]; sym_perm(pi);
  TMCG_StackSecret<VTMF_CardSecret> ss;
  for (unsigned i = 0; i < H_NC; ++i) { VTMF_CardSecret cs; vfh_mpz(cs.r, 0, H_Q); ss.push(pi[i], cs); }
  tmcg->TMCG_MixStack(s, s2, ss, vtmf, false);
  std::stringstream t;
  tmcg->TMCG_ProveStackEquality_Groth_noninteractive(s, s2, ss, vtmf, vs, t);
  long v[15]; slurp(t, v, 15);
  unsigned fresh_before = vfs_fresh;
  bool ok = false; H_TRY(ok = tmcg->TMCG_VerifyStackEquality_Groth_noninteractive(s, s2, vtmf, vs, t));
  vf_assert(vfh_exc == 0, "verifier does not throw on an honest proof");
  vf_assert(vfs_fresh == fresh_before, "the verifier re-derives exactly the prover's challenges (no new oracle query)");
  bool expect = bits_ok(v[4], H_LENIZK) && bits_ok(v[5], H_LENIZK) && v[6] != 0;
  vf_assert(ok == expect, "honest shuffle proof accepted <=> f_1, f_2 have at least l_e_nizk bits and Z != 0 (exact exceptional set)");
  H_END();
}

// ------------------------------------------------------------------------------------------------ C03, VSSHE direct, non-interactive
H_ENTRY(h_vsshe_ni) {
  vfs_tables(H_P, H_Q, H_G);
  long x = sym_key();
  GrothVSSHE *vs = mkvsshe(vfs_gpow[x]);
  stmt st; pairvec e, E; std::vector<mpz_ptr> R; std::vector<size_t> pi;
  sym_stmt(st, x, e, E, R, pi);
  for (unsigned i = 0; i < H_NC; ++i) push_ct(E, vfs_gpow[st.A[i]], vfs_gpow[st.B[i]]);
  std::stringstream t;
  vs->Prove_noninteractive(pi, R, e, E, t);
  long v[15]; slurp(t, v, 15);
  bool ok = false; H_TRY(ok = vs->Verify_noninteractive(e, E, t));
  vf_assert(vfh_exc == 0, "verifier does not throw on an honest proof");
  bool expect = bits_ok(v[4], H_LENIZK) && bits_ok(v[5], H_LENIZK) && v[6] != 0;
  vf_assert(ok == expect, "honest shuffle proof accepted <=> f_1, f_2 have at least l_e_nizk bits and Z != 0 (exact exceptional set)");
  H_END();
}

// ------------------------------------------------------------------------------------------------ C03, interactive (transcript fixed point)
// The verifier's challenges t_1, t_2, lambda, x, e (and its batch coin alpha) are chosen first (arbitrary l_e-bit values, e != 0 as
// the verifier draws it), handed to the prover as its input stream and fixed as the verifier's coins. The verifier then must emit
// exactly that stream (so the run is a consistent conversation) and accept.
H_ENTRY(h_vsshe_int) {
  vfs_tables(H_P, H_Q, H_G);
  long x = sym_key();
  GrothVSSHE *vs = mkvsshe(vfs_gpow[x]);
  stmt st; pairvec e, E; std::vector<mpz_ptr> R; std::vector<size_t> pi;
  sym_stmt(st, x, e, E, R, pi);
  for (unsigned i = 0; i < H_NC; ++i) push_ct(E, vfs_gpow[st.A[i]], vfs_gpow[st.B[i]]);
  long ch[5]; for (unsigned i = 0; i < 5; ++i) ch[i] = vfh_range(0, 1L << H_LE);
  vf_assume(ch[4] != 0);                                   // e: the verifier draws until nonzero
  vf_assume(ch[4] % H_Q != 0);                             // and 2^l_e <= q is required by CheckGroup, so e is a unit (stated for l_e = |q|)
  long alpha = vfh_range(0, 1L << H_LE);
  std::stringstream pin, pout, vout;
  for (unsigned i = 0; i < 5; ++i) vfh_put(pin, ch[i]);
  vs->Prove_interactive(pi, R, e, E, pin, pout);
  long v[15]; slurp(pout, v, 15);
  for (unsigned i = 0; i < 5; ++i) vfs_fix_bits(ch[i]);
  vfs_fix_bits(alpha);
  bool ok = false; H_TRY(ok = vs->Verify_interactive(e, E, pout, vout));
  vf_assert(vfh_exc == 0, "verifier does not throw on an honest conversation");
  long w[5]; slurp(vout, w, 5);
  for (unsigned i = 0; i < 5; ++i) vf_assert(w[i] == ch[i], "the verifier sends exactly the challenges the prover answered, in the same order");
  bool expect = bits_ok(v[4], H_LE) && bits_ok(v[5], H_LE) && v[6] != 0;
  vf_assert(ok == expect, "honest interactive shuffle proof accepted <=> f_1, f_2 have at least l_e bits and Z != 0 (exact exceptional set)");
  H_END();
}

// ------------------------------------------------------------------------------------------------ C03, public-coin form
// JareckiLysyanskayaEDCF::Flip_twoparty replaced by vfs_flip: both parties get the same arbitrary values in [0, q) (C17 is about the
// flip itself). Exceptional set: the flipped e reduced to l_e bits is 0 (the public-coin verifier has no redraw loop and runs into
// assert(mpz_invert(e)) - see notes) - assumed away here.
H_ENTRY(h_vsshe_pub) {
  vfs_tables(H_P, H_Q, H_G);
  long x = sym_key();
  GrothVSSHE *vs = mkvsshe(vfs_gpow[x]);
  stmt st; pairvec e, E; std::vector<mpz_ptr> R; std::vector<size_t> pi;
  sym_stmt(st, x, e, E, R, pi);
  for (unsigned i = 0; i < H_NC; ++i) push_ct(E, vfs_gpow[st.A[i]], vfs_gpow[st.B[i]]);
  for (unsigned i = 0; i < 5; ++i) vfs_pub[i] = vfh_range(0, H_Q);
  vfs_npub = 5;
  vf_assume(((vfs_pub[4] & ((1L << H_LE) - 1)) % H_Q) != 0);
  long alpha = vfh_range(0, 1L << H_LE); vfs_fix_bits(alpha);
  std::stringstream none, t, vout;
  vs->Prove_interactive_publiccoin(pi, R, e, E, (JareckiLysyanskayaEDCF*)0, none, t);
  long v[15]; slurp(t, v, 15);
  bool ok = false; H_TRY(ok = vs->Verify_interactive_publiccoin(e, E, (JareckiLysyanskayaEDCF*)0, t, vout));
  vf_assert(vfh_exc == 0, "verifier does not throw on an honest conversation");
  vf_assert(vfs_pub_used[0] == 5 && vfs_pub_used[1] == 5, "prover and verifier flip the same number of coins");
  bool expect = bits_ok(v[4], H_LE) && bits_ok(v[5], H_LE) && v[6] != 0;
  vf_assert(ok == expect, "honest public-coin shuffle proof accepted <=> f_1, f_2 have at least l_e bits and Z != 0 (exact exceptional set)");
  H_END();
}

// ------------------------------------------------------------------------------------------------ C04, wrong witness (non-interactive)
// Output ciphertext number H_BAD (default 1, i.e. E_2) is NOT the re-encryption of e_pi(i) with R_i: it is an arbitrary other pair of
// group elements (covers: message substituted / re-typed, card duplicated, randomizer not the claimed one). The prover runs the
// protocol with (pi, R) anyway. With rho = A - a_pi(i) - R_i and sigma = B - b_pi(i) - x R_i the verifier's last equation holds iff
// t_pi(i) * rho == 0 and t_pi(i) * sigma == 0 (mod q), i.e. (one of them is nonzero) iff the challenge t_pi(i) vanishes modulo q.
#ifndef H_BAD
#define H_BAD 1
#endif
H_ENTRY(h_vsshe_wrong) {
  vfs_tables(H_P, H_Q, H_G);
  long x = sym_key();
  GrothVSSHE *vs = mkvsshe(vfs_gpow[x]);
  stmt st; pairvec e, E; std::vector<mpz_ptr> R; std::vector<size_t> pi;
  sym_stmt(st, x, e, E, R, pi);
  long A2 = vfh_range(0, H_Q), B2 = vfh_range(0, H_Q);
  vf_assume(A2 != st.A[H_BAD] || B2 != st.B[H_BAD]);
  for (unsigned i = 0; i < H_NC; ++i) { if (i == H_BAD) push_ct(E, vfs_gpow[A2], vfs_gpow[B2]); else push_ct(E, vfs_gpow[st.A[i]], vfs_gpow[st.B[i]]); }
  std::stringstream t;
  vs->Prove_noninteractive(pi, R, e, E, t);
  long tch = (long)vfs_hout[st.pi[H_BAD]] & ((1L << H_LENIZK) - 1);      // digests 0, 1 are t_1, t_2; the falsified output claims input pi(H_BAD)
  long v[15]; slurp(t, v, 15);
  bool ok = true; H_TRY(ok = vs->Verify_noninteractive(e, E, t));
  vf_assert(vfh_exc == 0, "verifier does not throw");
  if (ok) vf_assert(tch % H_Q == 0, "output stack with a substituted / duplicated / re-typed card accepted only if its challenge t vanishes mod q");
  // exactness of the set: with t == 0 (mod q) the falsified card drops out of every equation
  if (tch % H_Q == 0) vf_assert(ok == (bits_ok(v[4], H_LENIZK) && bits_ok(v[5], H_LENIZK) && v[6] != 0), "in the exceptional set the proof is judged like an honest one");
  H_END();
}

// ------------------------------------------------------------------------------------------------ C05, non-interactive: edits
// One value replaced at position H_POS (slice) of: transcript tokens 4..6 and 10..14, public inputs 15..22 (e_1.c_1, e_1.c_2, e_2.c_1,
// e_2.c_2, E_1.c_1, ...), 23 = key h of the verifier's instance.
//  * SKC responses 10..14 (no hash input): accepted only as another representative of the same residue below q, or alpha == 0 (mod q)
//  * Z (6): always refused (the range check leaves one representative, the last equation fixes the residue)
//  * f_1, f_2 (4, 5): accepted only for the same residue below q (and then only because lambda is re-drawn: new oracle query)
//  * public inputs / key: accepted only together with a new oracle query (the value is bound into the Fiat-Shamir challenges);
//    conversely every such edit MUST cause a new oracle query.
#ifndef H_POS
#define H_POS 11
#endif
H_ENTRY(h_vsshe_tamper) {
  vfs_tables(H_P, H_Q, H_G);
  long x = sym_key();
  long hv = vfs_gpow[x];
  GrothVSSHE *vs = mkvsshe(hv);
  stmt st; pairvec e, E; std::vector<mpz_ptr> R; std::vector<size_t> pi;
  sym_stmt(st, x, e, E, R, pi);
  for (unsigned i = 0; i < H_NC; ++i) push_ct(E, vfs_gpow[st.A[i]], vfs_gpow[st.B[i]]);
  std::stringstream t;
  vs->Prove_noninteractive(pi, R, e, E, t);
  long v[24]; slurp(t, v, 15);
  for (unsigned i = 0; i < H_NC; ++i) { v[15 + 2 * i] = vfh_val(e[i].first); v[16 + 2 * i] = vfh_val(e[i].second); v[19 + 2 * i] = vfh_val(E[i].first); v[20 + 2 * i] = vfh_val(E[i].second); }
  v[23] = hv;
  // the unedited proof must be an accepted one ("starting from any accepted proof")
  vf_assume(bits_ok(v[4], H_LENIZK) && bits_ok(v[5], H_LENIZK) && v[6] != 0);
  const unsigned pos = H_POS;
  const bool is_exp = (pos >= 4 && pos <= 6) || (pos >= 10 && pos <= 14);
  long nv = is_exp ? vfh_range(-2 * H_Q, 3 * H_Q) : vfh_range(-1, 2 * H_P + 1);
  vf_assume(nv != v[pos]);
  std::stringstream t2; for (unsigned i = 0; i < 15; ++i) vfh_put(t2, i == pos ? nv : v[i]);
  pairvec e2, E2;
  for (unsigned i = 0; i < H_NC; ++i) { push_ct(e2, pos == 15 + 2 * i ? nv : v[15 + 2 * i], pos == 16 + 2 * i ? nv : v[16 + 2 * i]); push_ct(E2, pos == 19 + 2 * i ? nv : v[19 + 2 * i], pos == 20 + 2 * i ? nv : v[20 + 2 * i]); }
  GrothVSSHE *vv = (pos == 23) ? mkvsshe(nv) : vs;
  long alpha = vfh_range(0, 1L << H_LENIZK); vfs_fix_bits(alpha);
  unsigned fresh_before = vfs_fresh;
  bool ok = true; H_TRY(ok = vv->Verify_noninteractive(e2, E2, t2));
  bool redrawn = vfs_fresh != fresh_before;
  vf_assert(vfh_exc == 0 || vfh_exc == 1, "an edited proof is answered by a result or a standard exception");
  bool acc = (vfh_exc == 0) && ok;
  bool same_class = ((nv - v[pos]) % H_Q == 0) && nv < H_Q;
  if (pos >= 10 && pos <= 14) { if (acc) vf_assert(same_class || alpha % H_Q == 0, "edited SKC response accepted only as another representative below q (or batch coin alpha == 0 mod q)"); }
  else if (pos == 6) vf_assert(!acc, "edited Z is refused");
  else if (pos == 4 || pos == 5) { if (acc) vf_assert(same_class && redrawn, "edited f_i accepted only as another representative below q, and only under a re-drawn lambda"); }
  else if (pos >= 15) { vf_assert(redrawn, "an edited public input (card component, key) changes the input of a Fiat-Shamir hash"); }
  else { if (acc) vf_assert(redrawn, "edited commitment accepted only under re-drawn challenges"); }
  H_END();
}

// ------------------------------------------------------------------------------------------------ C05, interactive: out-of-range representatives
// No hash here: acceptance is purely algebraic. Position H_POS of the prover's 15 tokens is replaced by value + q (exponents
// 4..6, 10..14) resp. value + p (commitments 0, 1, 7..9, ciphertext E_d 2, 3): "values that the protocol requires to lie in the
// group or below the group order are refused when they do not, instead of being silently reduced".
H_ENTRY(h_vsshe_int_range) {
  vfs_tables(H_P, H_Q, H_G);
  long x = sym_key();
  GrothVSSHE *vs = mkvsshe(vfs_gpow[x]);
  stmt st; pairvec e, E; std::vector<mpz_ptr> R; std::vector<size_t> pi;
  sym_stmt(st, x, e, E, R, pi);
  for (unsigned i = 0; i < H_NC; ++i) push_ct(E, vfs_gpow[st.A[i]], vfs_gpow[st.B[i]]);
  long ch[5]; for (unsigned i = 0; i < 5; ++i) ch[i] = vfh_range(0, 1L << H_LE);
  vf_assume(ch[4] % H_Q != 0);
  long alpha = vfh_range(0, 1L << H_LE);
  std::stringstream pin, pout, vout;
  for (unsigned i = 0; i < 5; ++i) vfh_put(pin, ch[i]);
  vs->Prove_interactive(pi, R, e, E, pin, pout);
  long v[15]; slurp(pout, v, 15);
  vf_assume(bits_ok(v[4], H_LE) && bits_ok(v[5], H_LE) && v[6] != 0);       // the unedited conversation is an accepted one
  const unsigned pos = H_POS;
  const bool is_exp = (pos >= 4 && pos <= 6) || (pos >= 10 && pos <= 14);
  std::stringstream t2; for (unsigned i = 0; i < 15; ++i) vfh_put(t2, i == pos ? v[i] + (is_exp ? H_Q : H_P) : v[i]);
  for (unsigned i = 0; i < 5; ++i) vfs_fix_bits(ch[i]);
  vfs_fix_bits(alpha);
  bool ok = true; H_TRY(ok = vs->Verify_interactive(e, E, t2, vout));
  vf_assert(vfh_exc == 0 || vfh_exc == 1, "answered by a result or a standard exception");
  vf_assert(!(vfh_exc == 0 && ok), "a value outside its range (exponent + q, group element + p) is refused, not silently reduced");
  H_END();
}

// ------------------------------------------------------------------------------------------------ the SKC sub-argument through the f_prime overload
// GrothSKC::Verify_noninteractive(c, f_prime, m, in, optimizations) is the verifier GrothVSSHE uses ("optimized commitments": the
// caller passes c' = c / com(f'; 0) and f'). Driven directly here: m arbitrary, c = com(m_pi; r) as the prover sees it,
// f' arbitrary, c' = com(m_pi(i) - f'_i; r). Transcript: 0 c_d  1 c_Delta  2 c_a  3 f_1  4 f_2  5 z  6 f_Delta_1  7 z_Delta.
static GrothSKC *mkskc(long h) {
  GrothSKC *s = (GrothSKC*)::operator new(sizeof(GrothSKC));
  *const_cast<unsigned long*>(&s->l_e) = H_LE; *const_cast<unsigned long*>(&s->l_e_nizk) = H_LENIZK;
  s->com = mkcom(h);
  return s;
}
#ifndef H_OPT
#define H_OPT 1
#endif
struct skcrun { GrothSKC *skc; std::vector<mpz_ptr> m, fp; Z cp; long v[8]; std::stringstream t; };
// -DH_CV=k: "concrete vector" variant - key, permutation, messages, f_prime, randomizer and the five prover coins are fixed (vector k
// of skc_cv below); with -DH_DX/-DH_DE the two digests are pinned as well, so that the honest run is one concrete conversation and only the
// replacement value and the batch coin are symbolic (a test vector with a symbolic edit). The fully symbolic variant needs witness
// rounds of a quarter of an hour each on the loaded machine and was not closed.
#ifdef H_CV
static const long skc_cv[3][12] = {   /* x  pi0  m1 m2  f'1 f'2  r   r_d r_Delta d_1 d_2 r_a */
  { 2, 1,  1, 3,  2, 4,  3,   1, 2, 3, 4, 0 },
  { 3, 0,  4, 4,  0, 1,  0,   4, 0, 2, 2, 3 },
  { 1, 1,  0, 2,  3, 3,  4,   2, 3, 0, 1, 1 } };
#endif
static void skc_honest(skcrun &S) {
  vfs_tables(H_P, H_Q, H_G);
#ifdef H_CV
  const long *cv = skc_cv[H_CV];
  long x = cv[0];
  S.skc = mkskc(vfs_gpow[x]);
  unsigned pi[H_NC]; pi[0] = cv[1] ? 1 : 0; pi[1] = cv[1] ? 0 : 1;
  long mm[H_NC] = { cv[2], cv[3] }, ff[H_NC] = { cv[4], cv[5] };
  for (unsigned i = 0; i < 5; ++i) vfh_fix_next(cv[7 + i]);
#else
  long x = sym_key();
  S.skc = mkskc(vfs_gpow[x]);
  unsigned pi[H_NC]; sym_perm(pi);
  long mm[H_NC], ff[H_NC];
  for (unsigned i = 0; i < H_NC; ++i) { mm[i] = vfh_range(0, H_Q); ff[i] = vfh_range(0, H_Q); }
#endif
  std::vector<size_t> piv; std::vector<mpz_ptr> mp;
  for (unsigned i = 0; i < H_NC; ++i) { S.m.push_back(mkz(mm[i])); S.fp.push_back(mkz(ff[i])); }
  for (unsigned i = 0; i < H_NC; ++i) { piv.push_back(pi[i]); mp.push_back(mkz(vfs_subq(mm[pi[i]], ff[i], H_Q))); }
#ifdef H_CV
  Z r(cv[6]);
#else
  Z r; vfh_mpz(r, 0, H_Q);
#endif
  S.skc->com->CommitBy(S.cp, r, mp, true);                       // c' = com(m_pi(i) - f'_i; r)
  S.skc->Prove_noninteractive(piv, r, S.m, S.t);
  slurp(S.t, S.v, 8);
}
H_ENTRY(h_skc_fprime) {
  skcrun S; skc_honest(S);
  long alpha = vfh_range(0, 1L << H_LENIZK); vfs_fix_bits(alpha);
  bool ok = false; H_TRY(ok = S.skc->Verify_noninteractive(S.cp, S.fp, S.m, S.t, H_OPT != 0));
  vf_assert(vfh_exc == 0 && ok, "honest shuffle-of-known-content argument is accepted through the f_prime overload");
  H_END();
}
// C05: one response (position H_POS in 3..7) replaced by an arbitrary other value in [-2q, 3q)
H_ENTRY(h_skc_fprime_tamper) {
  skcrun S; skc_honest(S);
  const unsigned pos = H_POS;
  long nv = vfh_range(-2 * H_Q, 3 * H_Q); vf_assume(nv != S.v[pos]);
  std::stringstream t2; for (unsigned i = 0; i < 8; ++i) vfh_put(t2, i == pos ? nv : S.v[i]);
  long alpha = vfh_range(0, 1L << H_LENIZK); vfs_fix_bits(alpha);
  bool ok = true; H_TRY(ok = S.skc->Verify_noninteractive(S.cp, S.fp, S.m, t2, H_OPT != 0));
  vf_assert(vfh_exc == 0 || vfh_exc == 1, "an edited argument is answered by a result or a standard exception");
  bool same_class = ((nv - S.v[pos]) % H_Q == 0) && nv < H_Q;
  if (vfh_exc == 0 && ok) vf_assert(same_class || (H_OPT != 0 && alpha % H_Q == 0), "edited SKC response accepted only as another representative of the same residue below q (batch verification: or alpha == 0 mod q)");
  H_END();
}
