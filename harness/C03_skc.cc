// C03: Groth's shuffle of known content (non-interactive form): the real verifier accepts the real prover's argument
// for every permutation, message vector, randomizer and prover coin (n = 2).
#include "vfh_proto.hh"
#include "GrothVSSHE.hh"
#include <new>
#ifndef H_P
#define H_P 11
#define H_Q 5
#define H_K 2
#endif
#define H_NG 2
static GrothSKC *mkskc() {
  // the object is assembled by hand around a Pedersen scheme over the toy group (the generating constructor needs the
  // prime generators); l_e = 2, l_e_nizk = 4 bits
  GrothSKC *s = (GrothSKC*)::operator new(sizeof(GrothSKC));
  *const_cast<unsigned long*>(&s->l_e) = 2; *const_cast<unsigned long*>(&s->l_e_nizk) = 4;
  Z P(H_P), Q(H_Q), K(H_K), Hh(3);
  vfh_fix_next(2); vfh_fix_next(3);                       // generator draws: g_i = coin^k mod p = 4, 9
  s->com = new PedersenCommitmentScheme(H_NG, P, Q, K, Hh, 2, 2);
  return s;
}
H_ENTRY(h_skc) {
  GrothSKC *skc = mkskc();
  std::vector<mpz_ptr> m, mp;
  for (unsigned i = 0; i < H_NG; ++i) { mpz_ptr x = new mpz_t(); mpz_init(x); vfh_mpz(x, 0, H_Q); m.push_back(x); }
  std::vector<size_t> pi;
  if (vf_nondet_u8() & 1) { pi.push_back(0); pi.push_back(1); } else { pi.push_back(1); pi.push_back(0); }
  Z r, c; vfh_mpz(r, 0, H_Q);
  for (unsigned i = 0; i < H_NG; ++i) mp.push_back(m[pi[i]]);
  skc->com->CommitBy(c, r, mp, true);
  std::stringstream t;
  skc->Prove_noninteractive(pi, r, m, t);
  bool ok = false; H_TRY(ok = skc->Verify_noninteractive(c, m, t, false));
  vf_assert(vfh_exc == 0 && ok, "honest shuffle-of-known-content argument is accepted");
  H_END();
}

// C05 for the same argument: one of the transmitted exponents (f_1, f_2, z, f_Delta_1, z_Delta - the values that do not enter
// a Fiat-Shamir hash, so acceptance is an algebraic fact) is replaced by an arbitrary other value
H_ENTRY(h_skc_tamper) {
  GrothSKC *skc = mkskc();
  std::vector<mpz_ptr> m, mp;
  for (unsigned i = 0; i < H_NG; ++i) { mpz_ptr x = new mpz_t(); mpz_init(x); vfh_mpz(x, 0, H_Q); m.push_back(x); }
  std::vector<size_t> pi;
  if (vf_nondet_u8() & 1) { pi.push_back(0); pi.push_back(1); } else { pi.push_back(1); pi.push_back(0); }
  Z r, c; vfh_mpz(r, 0, H_Q);
  for (unsigned i = 0; i < H_NG; ++i) mp.push_back(m[pi[i]]);
  skc->com->CommitBy(c, r, mp, true);
  std::stringstream t;
  skc->Prove_noninteractive(pi, r, m, t);
  long v[8]; for (unsigned i = 0; i < 8; ++i) { Z x; t >> (mpz_ptr)x; v[i] = x.get(); }
  unsigned pos = 3 + (unsigned)vf_nondet_below(5);
  long nv = vfh_range(-2 * H_Q, 3 * H_Q); vf_assume(nv != v[pos]);
  std::stringstream t2; for (unsigned i = 0; i < 8; ++i) vfh_put(t2, i == pos ? nv : v[i]);
  bool ok = true; H_TRY(ok = skc->Verify_noninteractive(c, m, t2, false));
  // a refusal may be a negative result or a standard exception (oversized negative exponents make the table power throw)
  vf_assert(vfh_exc == 0 || vfh_exc == 1, "an edited argument is answered by a result or a standard exception");
  if (vfh_exc == 0 && ok) vf_assert(((nv - v[pos]) % H_Q == 0) && nv < H_Q, "edited exponent accepted only as another representative of the same residue below q");
  H_END();
}
