// C03: Groth's shuffle of known content (non-interactive form): the real verifier accepts the real prover's argument
// for every permutation, message vector, randomizer and prover coin (n = 2).
#include "vfh_proto.hh"
#include "GrothVSSHE.hh"
#include <new>
#ifndef H_P
#define H_P 11
#define H_Q 5
#define H_K 2
#endif
#define H_NG 2
static GrothSKC *mkskc() {
  // the object is assembled by hand around a Pedersen scheme over the toy group (the generating constructor needs the
  // prime generators); l_e = 2, l_e_nizk = 4 bits
  GrothSKC *s = (GrothSKC*)::operator new(sizeof(GrothSKC));
  *const_cast<unsigned long*>(&s->l_e) = 2; *const_cast<unsigned long*>(&s->l_e_nizk) = 4;
  Z P(H_P), Q(H_Q), K(H_K), Hh(3);
  vfh_fix_next(2); vfh_fix_next(3);                       // generator draws: g_i = coin^k mod p = 4, 9
  s->com = new PedersenCommitmentScheme(H_NG, P, Q, K, Hh, 2, 2);
  return s;
}
H_ENTRY(h_skc) {
  GrothSKC *skc = mkskc();
  std::vector<mpz_ptr> m, mp;
  for (unsigned i = 0; i < H_NG; ++i) { mpz_ptr x = new mpz_t(); mpz_init(x); vfh_mpz(x, 0, H_Q); m.push_back(x); }
  std::vector<size_t> pi;
  if (vf_nondet_u8() & 1) { pi.push_back(0); pi.push_back(1); } else { pi.push_back(1); pi.push_back(0); }
  Z r, c; vfh_mpz(r, 0, H_Q);
  for (unsigned i = 0; i < H_NG; ++i) mp.push_back(m[pi[i]]);
  skc->com->CommitBy(c, r, mp, true);
  std::stringstream t;
  skc->Prove_noninteractive(pi, r, m, t);
  bool ok = false; H_TRY(ok = skc->Verify_noninteractive(c, m, t, false));
  vf_assert(vfh_exc == 0 && ok, "honest shuffle-of-known-content argument is accepted");
  H_END();
}
