// C20 (structural core): TMCG_OpenPGP_Signature::CheckValidity refuses exactly the signatures that are expired, older than
// their key, dated more than 25 hours in the future, or made with a hash outside the accepted strong set.
#include "vfh.hh"
extern "C" long vf_time_seen(unsigned k);
#include <new>
#include <cstring>
#include "CallasDonnerhackeFinneyShawThayerRFC4880.hh"
H_ENTRY(h_sig_validity) {
  // the object is used as a plain record of the fields CheckValidity reads (no MPIs are needed)
  TMCG_OpenPGP_Signature *s = (TMCG_OpenPGP_Signature*)::operator new(sizeof(TMCG_OpenPGP_Signature));
  memset((void*)s, 0, sizeof(TMCG_OpenPGP_Signature));
  uint32_t created = vf_nondet_u32(), expires = vf_nondet_u32(), keycreated = vf_nondet_u32();
  unsigned char hash = vf_nondet_u8();
  s->creationtime = (time_t)created; s->expirationtime = (time_t)expires; s->hashalgo = (tmcg_openpgp_hashalgo_t)hash; s->expired = false;
  unsigned before = 0; (void)before;
  bool got = s->CheckValidity((time_t)keycreated, 0);
  // specification (property text): all times are seconds; "far in the future" = more than 25 hours ahead of now
  bool strong = (hash == 8 || hash == 9 || hash == 10 || hash == 12 || hash == 14);   // SHA-256/384/512, SHA3-256/512
  long seen = vf_time_seen(0);       // the instant CheckValidity read from time()
  bool expired = (expires != 0) && ((long)seen > (long)created + (long)expires);
  bool older = created < keycreated;
  bool future = (long)created > seen + 25L * 3600L;
  vf_assert(got == (!expired && !older && !future && strong), "CheckValidity <=> not expired, not older than the key, not > 25 h in the future, strong hash");
  if (expired) vf_assert(s->expired, "expired flag is set for an expired signature");
  H_END();
}

// keys: the same time logic guards primary keys and subkeys (CheckValidity: now; CheckValidityPeriod: at a given instant)
template<class K> static K *mkrec() { K *k = (K*)::operator new(sizeof(K)); memset((void*)k, 0, sizeof(K)); return k; }
H_ENTRY(h_key_validity) {
  uint32_t created = vf_nondet_u32(), expires = vf_nondet_u32(), binding = vf_nondet_u32(); unsigned which = vf_nondet_u8() & 1;
  bool got; bool flag;
  if (which) { TMCG_OpenPGP_Pubkey *k = mkrec<TMCG_OpenPGP_Pubkey>(); k->creationtime = created; k->expirationtime = expires; got = k->CheckValidity(0); flag = k->expired; binding = 0; }
  else { TMCG_OpenPGP_Subkey *k = mkrec<TMCG_OpenPGP_Subkey>(); k->creationtime = created; k->expirationtime = expires; k->bindingtime = binding; got = k->CheckValidity(0); flag = k->expired; }
  long seen = vf_time_seen(0);
  bool expired = (expires != 0) && (seen > (long)created + (long)expires);
  bool future = (long)created > seen + 25L * 3600L;
  bool before = (binding != 0) && (created > binding);        // subkey only: binding signature made before the subkey existed
  vf_assert(got == (!expired && !future && !before), "key CheckValidity <=> not expired, not > 25 h in the future, binding signature not older than the subkey");
  vf_assert(flag == expired, "expired flag is set exactly for an expired key");
  H_END();
}
H_ENTRY(h_key_validity_period) {
  uint32_t created = vf_nondet_u32(), expires = vf_nondet_u32(); uint64_t at = vf_nondet_u64() & 0x1FFFFFFFFFFULL; unsigned which = vf_nondet_u8() & 1;
  bool got;
  if (which) { TMCG_OpenPGP_Pubkey *k = mkrec<TMCG_OpenPGP_Pubkey>(); k->creationtime = created; k->expirationtime = expires; got = k->CheckValidityPeriod((time_t)at, 0); }
  else { TMCG_OpenPGP_Subkey *k = mkrec<TMCG_OpenPGP_Subkey>(); k->creationtime = created; k->expirationtime = expires; got = k->CheckValidityPeriod((time_t)at, 0); }
  bool inside = ((long)at >= (long)created) && (expires == 0 || (long)at <= (long)created + (long)expires);
  vf_assert(got == inside, "CheckValidityPeriod <=> creation <= at <= creation + expiration (no upper end without expiration)");
  H_END();
}
