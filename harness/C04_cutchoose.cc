// C03 / C04 (and one C12-type probe) for the cut-and-choose stack proofs of the discrete-log encoding:
// SchindelhauerTMCG::TMCG_ProveStackEquality / TMCG_VerifyStackEquality (VTMF overloads), kappa = H_KAPPA rounds.
//
// Conversation as a transcript fixed point: the verifier's coin string c_1..c_kappa is chosen first (arbitrary bits), handed to the
// real prover as its input stream (after the security level) and fixed as the verifier's coins; the verifier must then emit exactly
// that stream.
//
// Transport of a stack secret (operator<< / operator>> of TMCG_StackSecret<VTMF_CardSecret>, i.e. the text codec "sts^n^i^crs|r|^...")
// is replaced by a typed side channel (vfs_wire) with the acceptance condition of the real import(): 1 <= size <= TMCG_MAX_CARDS,
// every index < size, indices a bijection, exponent any integer. Reason: a value read back from a stream buffer is symbolic to the
// engine, which would make every container size and card index of the verifier symbolic; the text codec itself is covered by
// C02_sts_import. The stacks that are hashed for the commitment go through the real TMCG_Stack / VTMF_Card operator<<.
// h_cc_size_text uses the REAL text codec on a concrete malicious transcript.
#ifndef H_P
#define H_P 7
#define H_Q 3
#define H_G 2
#define H_K 2
#endif
#ifndef H_N
#define H_N 2
#endif
#ifndef H_KAPPA
#define H_KAPPA 1
#endif
#ifndef H_CYCLIC
#define H_CYCLIC 0
#endif
#include "vfh_shuffle.hh"
#include "SchindelhauerTMCG.hh"
#include "BarnettSmartVTMF_dlog.hh"
#include "mpz_spowm.hh"
#include "mpz_shash.hh"

// ---------------------------------------------------------------- typed side channel for stack secrets
struct vfs_wire_t { long size; long idx[4]; long r[4]; };
static vfs_wire_t vfs_wire[6]; static unsigned vfs_wire_w = 0, vfs_wire_r = 0;
std::ostream& vfs_sts_out(std::ostream& out, const TMCG_StackSecret<VTMF_CardSecret>& ss) {
  vf_assume(vfs_wire_w < 6 && ss.size() <= 4);
  vfs_wire_t &w = vfs_wire[vfs_wire_w++];
  w.size = (long)ss.size();
  for (size_t i = 0; i < ss.size(); ++i) { w.idx[i] = (long)ss[i].first; w.r[i] = vfh_val(ss[i].second.r); }
  out << "sts";                    // one line on the stream, so that the stream positions of both parties stay aligned
  return out;
}
std::istream& vfs_sts_in(std::istream& in, TMCG_StackSecret<VTMF_CardSecret>& ss) {
  char line[8]; in.getline(line, 8);
  bool ok = in.good() && line[0] == 's' && line[1] == 't' && line[2] == 's' && line[3] == 0 && vfs_wire_r < vfs_wire_w;
  if (ok) {
    const vfs_wire_t &w = vfs_wire[vfs_wire_r++];
    if (w.size <= 0 || w.size > (long)TMCG_MAX_CARDS || w.size > 4) ok = false;
    for (long i = 0; ok && i < w.size; ++i) {
      if (w.idx[i] < 0 || w.idx[i] >= w.size) { ok = false; break; }
      std::pair<size_t, VTMF_CardSecret> lej; lej.first = (size_t)w.idx[i]; mpz_set_si(lej.second.r, w.r[i]);
      ss.stack.push_back(lej);
    }
    for (long v = 0; ok && v < w.size; ++v) if (ss.find_position((size_t)v) >= (size_t)w.size) ok = false;
  }
  if (!ok) in.setstate(std::istream::failbit);
  return in;
}

static BarnettSmartVTMF_dlog *mkvtmf(long x) {
  BarnettSmartVTMF_dlog *v = new BarnettSmartVTMF_dlog(2, 2, false, false);
  mpz_set_ui(v->p, H_P); mpz_set_ui(v->q, H_Q); mpz_set_ui(v->g, H_G); mpz_set_ui(v->k, H_K);
  tmcg_mpz_fpowm_precompute(v->fpowm_table_g, v->g, v->p, mpz_sizeinbase(v->q, 2L));
  mpz_set_si(v->x_i, x); mpz_set_si(v->h, vfs_gpow[x]); mpz_set(v->h_i, v->h);
  v->KeyGenerationProtocol_Finalize();
  return v;
}
static long sym_key() {
#ifdef H_X
  return H_X;
#else
  return vfh_range(1, H_Q);
#endif
}
// concrete permutation number idx of 0..n-1 (lexicographic)
static void nth_perm(unsigned n, unsigned idx, unsigned *out) {
  unsigned avail[8]; for (unsigned i = 0; i < n; ++i) avail[i] = i;
  unsigned f = 1; for (unsigned i = 2; i < n; ++i) f *= i;
  for (unsigned i = 0; i < n; ++i) {
    unsigned sel = idx / f; idx %= f; if (n - 1 - i > 0) f /= (n - 1 - i);
    out[i] = avail[sel]; for (unsigned j = sel; j + 1 < n - i; ++j) avail[j] = avail[j + 1];
  }
}
#ifndef H_PERM
#define H_PERM 1
#endif
// the prover's own permutation / rotation draws are scripted per slice (H_DRAWS: decimal digits, one per draw, first draw = most
// significant digit); its masking exponents and everything else stay symbolic
#ifndef H_DRAWS
#define H_DRAWS 0
#endif
static unsigned cc_draw_n = 0;
extern "C" unsigned long vfs_scripted_mod(unsigned long m) {
  unsigned long d = H_DRAWS; unsigned total = H_KAPPA * (H_CYCLIC ? 1 : (H_N - 1));
  vf_assume(cc_draw_n < total);
  for (unsigned i = cc_draw_n + 1; i < total; ++i) d /= 10;
  ++cc_draw_n;
  return (d % 10) % m;
}
struct inst { BarnettSmartVTMF_dlog *vtmf; SchindelhauerTMCG *tmcg; TMCG_Stack<VTMF_Card> s, s2; TMCG_StackSecret<VTMF_CardSecret> ss; long x; long a[H_N], b[H_N]; };
static void setup(inst &I) {
  vfs_tables(H_P, H_Q, H_G);
  I.x = sym_key();
  I.vtmf = mkvtmf(I.x);
  I.tmcg = new SchindelhauerTMCG(H_KAPPA, 2, 1);
  for (unsigned i = 0; i < H_N; ++i) { VTMF_Card c; I.a[i] = vfh_range(0, H_Q); I.b[i] = vfh_range(0, H_Q); mpz_set_si(c.c_1, vfs_gpow[I.a[i]]); mpz_set_si(c.c_2, vfs_gpow[I.b[i]]); I.s.push(c); }
  unsigned pi[H_N];
#if H_CYCLIC
  for (unsigned i = 0; i < H_N; ++i) pi[i] = (i + H_PERM) % H_N;          // rotation by H_PERM
#else
  nth_perm(H_N, H_PERM, pi);
#endif
  for (unsigned i = 0; i < H_N; ++i) { VTMF_CardSecret cs; vfh_mpz(cs.r, 0, H_Q); I.ss.push(pi[i], cs); }
  I.tmcg->TMCG_MixStack(I.s, I.s2, I.ss, I.vtmf, false);
}
static long open_exp(long a, long b, long x) { return vfs_subq(b, vfs_mulq(a, x), H_Q); }

// ------------------------------------------------------------------------------------------------ C03: honest conversation
// ------------------------------------------------------------------------------------------------ C04 (-DH_WRONG): the real prover with a
// witness that does not fit: after mixing, card 0 of the output stack gets its message multiplied by g^delta (delta != 0: re-typed /
// substituted card). The real prover always prepares for the all-ones coin string (it commits to a mix of s2): accepted for
// exactly that string.  -DH_WRONG=2: the stack secret is a non-cyclic permutation (n = 3 transposition), the proof is run with
// cyclic = true: again accepted exactly for the all-ones string.
H_ENTRY(h_cc) {
  inst I; setup(I);
#if defined(H_WRONG) && H_WRONG == 1
  { long d = vfh_range(1, H_Q); long e2 = vfs_dlog_t[vfh_val(I.s2[0].c_2)]; mpz_set_si(I.s2.stack[0].c_2, vfs_gpow[vfs_addq(e2, d, H_Q)]); }
#endif
  long c[H_KAPPA]; for (unsigned i = 0; i < H_KAPPA; ++i) c[i] = vfh_range(0, 2);
  std::stringstream pin, pout, vout;
  pin << (unsigned long)H_KAPPA << std::endl;
  for (unsigned i = 0; i < H_KAPPA; ++i) vfh_put(pin, c[i]);
#if defined(H_WRONG) && H_WRONG == 2
  const bool cyc = true;
#else
  const bool cyc = (H_CYCLIC != 0);
#endif
  I.tmcg->TMCG_ProveStackEquality(I.s, I.s2, I.ss, cyc, I.vtmf, pin, pout);
  for (unsigned i = 0; i < H_KAPPA; ++i) vfs_fix_bits(c[i]);
  bool ok = false; H_TRY(ok = I.tmcg->TMCG_VerifyStackEquality(I.s, I.s2, cyc, I.vtmf, pout, vout));
  vf_assert(vfh_exc == 0, "verifier does not throw");
  // what the verifier sent: security level, then its coins
  { unsigned long lvl = 0; vout >> lvl; vout.ignore(1, '\n'); vf_assert(lvl == H_KAPPA, "verifier announces its security level");
    bool all_sent = true; for (unsigned i = 0; i < H_KAPPA; ++i) { long w = -1; try { Z t; vout >> (mpz_ptr)t; w = t.get(); } catch (...) { all_sent = false; } if (all_sent) vf_assert(w == c[i], "verifier sends exactly the coins the prover answered"); }
    if (ok) vf_assert(all_sent, "an accepting verifier has sent all its coins"); }
#ifndef H_WRONG
  vf_assert(ok, "honest cut-and-choose stack proof is accepted for every coin string");
#else
  bool all_ones = true; for (unsigned i = 0; i < H_KAPPA; ++i) if (c[i] != 1) all_ones = false;
  vf_assert(ok == all_ones, "prover with a non-fitting witness (prepared for the all-ones coin string) is accepted for exactly that string");
#endif
  H_END();
}

// ------------------------------------------------------------------------------------------------ C04: cheating prover with an arbitrary guess
// The statement is false (multiset of opened messages of s2 differs from that of s). The cheater guesses the coin string g: in a round
// with g_i = 1 it commits to a mix of s2, in a round with g_i = 0 to a mix of s, and answers with the secret of that mix whatever the
// coin is. Accepted <=> c == g, i.e. for exactly one of the 2^kappa coin strings (hash assumed collision-free on the calls made).
H_ENTRY(h_cc_guess) {
  inst I; setup(I);
  { long d = vfh_range(1, H_Q); long e2 = vfs_dlog_t[vfh_val(I.s2[0].c_2)]; mpz_set_si(I.s2.stack[0].c_2, vfs_gpow[vfs_addq(e2, d, H_Q)]); }
  long c[H_KAPPA], g[H_KAPPA];
  for (unsigned i = 0; i < H_KAPPA; ++i) { c[i] = vfh_range(0, 2); g[i] = vfh_range(0, 2); }
  std::stringstream pout, vout;
  for (unsigned i = 0; i < H_KAPPA; ++i) {
    TMCG_StackSecret<VTMF_CardSecret> ss2; TMCG_Stack<VTMF_Card> s3;
    unsigned pj[H_N]; nth_perm(H_N, (H_DRAWS >> i) & 1, pj);
    for (unsigned j = 0; j < H_N; ++j) { VTMF_CardSecret cs; vfh_mpz(cs.r, 0, H_Q); ss2.push(pj[j], cs); }
    if (g[i]) I.tmcg->TMCG_MixStack(I.s2, s3, ss2, I.vtmf); else I.tmcg->TMCG_MixStack(I.s, s3, ss2, I.vtmf);
    std::ostringstream ost; ost << s3 << std::endl;
    Z hh; tmcg_mpz_shash(hh, ost.str());
    pout << (mpz_srcptr)hh << std::endl;
    vfs_sts_out(pout, ss2); pout << std::endl;
  }
  for (unsigned i = 0; i < H_KAPPA; ++i) vfs_fix_bits(c[i]);
  bool ok = true; H_TRY(ok = I.tmcg->TMCG_VerifyStackEquality(I.s, I.s2, false, I.vtmf, pout, vout));
  vf_assert(vfh_exc == 0, "verifier does not throw");
  bool same = true; for (unsigned i = 0; i < H_KAPPA; ++i) if (c[i] != g[i]) same = false;
  vf_assert(ok == same, "cheating prover prepared for the coin string g is accepted <=> the verifier's coins equal g (one of 2^kappa strings)");
  H_END();
}

// ------------------------------------------------------------------------------------------------ probe: stack secret of another size
// A malicious prover answers with a well-formed stack secret whose size differs from the stack's (H_SSN cards instead of H_N).
// Expected of a verifier: refusal. (typed side channel)
#ifndef H_SSN
#define H_SSN 1
#endif
H_ENTRY(h_cc_size) {
  inst I; setup(I);
  std::stringstream pout, vout;
  vfh_put(pout, vfh_range(0, 1L << H_DBITS));           // any commitment value
  // the prover either answers with a secret of the stack's size or with one of another size (H_SSN): the first alternative keeps
  // the end of the harness reachable even if every run of the second one dies in a library assertion
  bool attack = vf_nondet_u8() & 1;
  unsigned ssn = attack ? H_SSN : H_N;
  { vfs_wire_t &w = vfs_wire[vfs_wire_w++]; w.size = ssn; for (unsigned j = 0; j < 4; ++j) { if (j >= ssn) break; w.idx[j] = j; w.r[j] = vfh_range(0, H_Q); } }
  pout << "sts" << std::endl;
  bool ok = true; H_TRY(ok = I.tmcg->TMCG_VerifyStackEquality(I.s, I.s2, false, I.vtmf, pout, vout));
  vf_assert(vfh_exc == 0 || vfh_exc == 1, "answered by a result or a standard exception");
  if (attack) vf_assert(!(vfh_exc == 0 && ok), "a stack secret of another size than the stack is refused");
  H_END();
}

// ------------------------------------------------------------------------------------------------ the same probe through the REAL text codec
// (operator>> of TMCG_StackSecret -> getline -> import -> VTMF_CardSecret::import -> mpz_set_str): the verifier's input is the
// concrete byte string  <commitment token> "\n" "sts^1^0^crs|2|^" "\n"  for a 2-card stack (H_SSN = 1), resp. the 3-card secret
// "sts^3^0^crs|2|^1^crs|2|^2^crs|2|^" (H_SSN = 3).
H_ENTRY(h_cc_size_text) {
  inst I; setup(I);
  std::stringstream pout, vout;
  vfh_put(pout, vfh_range(0, 1L << H_DBITS));
#if H_SSN == 1
  pout << "sts^1^0^crs|2|^" << std::endl;
#elif H_SSN == 3
  pout << "sts^3^0^crs|2|^1^crs|2|^2^crs|2|^" << std::endl;
#else
  pout << "sts^2^0^crs|2|^1^crs|2|^" << std::endl;       // control: fitting size (must simply be judged, no abort)
#endif
  bool ok = true; H_TRY(ok = I.tmcg->TMCG_VerifyStackEquality(I.s, I.s2, false, I.vtmf, pout, vout));
  vf_assert(vfh_exc == 0 || vfh_exc == 1, "answered by a result or a standard exception");
#if H_SSN != H_N
  vf_assert(!(vfh_exc == 0 && ok), "a stack secret of another size than the stack is refused");
#endif
  H_END();
}
