// C02 / C07: permutation and rotation generators (real random_permutation_fast / random_rotation / TMCG_CreateStackSecret)
#include "vfh_gmp.hh"
#include <vector>
#include <cstddef>
void random_permutation_fast(const size_t n, std::vector<size_t> &pi);
size_t random_rotation(const size_t n, std::vector<size_t> &pi);
#ifndef H_N
#define H_N 4
#endif
// scripted bounded sampler: logs the modulus of every request, returns the next symbolic draw (contract: value in [0, m))
static unsigned long h_mod[16], h_val[16]; static unsigned h_nreq = 0;
extern "C" unsigned long vfstub_random_mod(unsigned long m) {
  vf_assume(h_nreq < 16);
  vf_assume(m >= 1);        // the real sampler throws for m < 2; m == 1 is tolerated here and flagged by the modulus assertions
  unsigned long v = vf_nondet_below(m);
  h_mod[h_nreq] = m; h_val[h_nreq] = v; ++h_nreq;
  return v;
}
static bool is_bijection(const std::vector<size_t> &pi, size_t n) {
  if (pi.size() != n) return false;
  for (size_t v = 0; v < n; ++v) { size_t c = 0; for (size_t i = 0; i < n; ++i) if (pi[i] == v) ++c; if (c != 1) return false; }
  return true;
}
// C02: every freshly generated permutation is a bijection on {0..n-1}
// C07: draw i is requested with modulus exactly n-i (so the number of draw vectors is n!), and (next harness) distinct draw
//      vectors give distinct permutations => the map draws -> S_n is a bijection => uniform draws give uniform permutations
H_ENTRY(h_perm) {
  std::vector<size_t> pi;
  random_permutation_fast(H_N, pi);
  vf_assert(is_bijection(pi, H_N), "random_permutation_fast yields a bijection on 0..n-1");
  vf_assert(h_nreq == H_N - 1, "exactly n-1 draws");
  for (unsigned i = 0; i < h_nreq; ++i) vf_assert(h_mod[i] == H_N - i, "draw i uses modulus exactly n-i (Fisher-Yates, no bias)");
  H_END();
}
H_ENTRY(h_perm_injective) {
  std::vector<size_t> pi, pj;
  unsigned long a[16], b[16];
  random_permutation_fast(H_N, pi);
  unsigned na = h_nreq; for (unsigned i = 0; i < na; ++i) a[i] = h_val[i];
  h_nreq = 0;
  random_permutation_fast(H_N, pj);
  unsigned nb = h_nreq; for (unsigned i = 0; i < nb; ++i) b[i] = h_val[i];
  bool same_pi = (pi == pj), same_d = (na == nb);
  for (unsigned i = 0; i < na && i < nb; ++i) if (a[i] != b[i]) same_d = false;
  vf_assert(!same_pi || same_d, "different draw vectors give different permutations (draws -> S_n is injective, hence bijective)");
  H_END();
}
H_ENTRY(h_rotation) {
  std::vector<size_t> pi;
  size_t rho = random_rotation(H_N, pi);
  vf_assert(is_bijection(pi, H_N), "random_rotation yields a bijection");
  vf_assert(h_nreq == 1 && h_mod[0] == H_N, "one draw with modulus exactly n (all n shifts equally likely)");
  vf_assert(pi[0] == h_val[0], "the draw determines the rotation (injective in the draw)");
  for (size_t i = 0; i < H_N; ++i) vf_assert(pi[i] == (pi[0] + i) % H_N, "cyclic shift: pi[i] == (pi[0] + i) mod n");
  vf_assert(rho < H_N, "reported offset in range");
  for (size_t i = 0; i < H_N; ++i) vf_assert(pi[(i + rho) % H_N] == i, "reported offset: the card at position i moves to position (i + offset) mod n");
  H_END();
}
