// C15: Pedersen VSS (PedersenVSS::Share / Reconstruct) - one real party against an ideal tape network (vfh_net.hh)
//  h_pvss_recv      receiver against an arbitrary dealer (and an arbitrary third party): complaint <=> share inconsistent,
//                   acceptance => at most t complaints, every publicly answered complaint verifies, stored share verifies
//  h_pvss_dealer    honest dealer, all coins symbolic: what it sends satisfies the share check, sigma_j = f(j+1), f(0) = secret;
//                   complaints are answered with the consistent pair; more than t complaints => gives up
//  h_pvss_reconstruct  Reconstruct returns the dealer's secret from t+1 verified shares; a wrong share is filtered
#include "vfh_net.hh"
#include "PedersenVSS.hh"
#ifndef H_P
#define H_P 11
#define H_Q 5
#define H_G 3
#define H_K 2
#endif
#ifndef H_N
#define H_N 3
#define H_T 1
#define H_I 1
#define H_D 0
#endif
static PedersenVSS *mkpvss(size_t i) { Z P(H_P), Q(H_Q), G(H_G), Hh(H_H); return new PedersenVSS(H_N, H_T, i, P, Q, G, Hh, 2, 2, false, ""); }
#define H_O (3 - H_I - H_D)        /* the third party when n = 3 */

// ------------------------------------------------------------------------------------------------ receiver
H_ENTRY(h_pvss_recv) {
  PedersenVSS *v = mkpvss(H_I);
  VNetUnicast *aiou = vn_aiou(H_N, H_I); CachinKursawePetzoldShoupRBC *rbc = vn_rbc(H_N, H_T, H_I);
  // dealer: commitments, then (for the public complaint resolution) up to one answer (who, s, s'); cut anywhere
  long A[H_T + 1];
  for (unsigned k = 0; k <= H_T; ++k) { A[k] = vfh_range(-1, H_P + 2); vn_bpush(H_D, A[k]); }
#if H_N > 2
  long rwho = vfh_range(0, H_N + 1), rs = vfh_range(-H_Q, H_Q + 1), rt = vfh_range(-H_Q, H_Q + 1);
  vn_bpush(H_D, rwho); vn_bpush(H_D, rs); vn_bpush(H_D, rt);
#endif
  unsigned dlen = vn_bcut(H_D);
  long sig = vfh_range(-H_Q, H_Q + 1), tau = vfh_range(-H_Q, H_Q + 1);
  vn_upush(H_D, sig); vn_upush(H_D, tau);
  unsigned ulen = vn_ucut(H_D);
#if H_N > 2
  // third party: up to three complaint values (a value >= n is the end marker); cut anywhere
  long w[3]; for (unsigned k = 0; k < 3; ++k) { w[k] = vfh_range(0, H_N + 1); vn_bpush(H_O, w[k]); }
  unsigned olen = vn_bcut(H_O);
#endif
  bool ok = false;
  H_TRY(ok = v->Share((size_t)H_D, aiou, rbc, std::cerr, false));
  vf_assert(vfh_exc == 0, "Share(dealer) returns");
  // ---- oracle
  bool members = dlen >= H_T + 1; for (unsigned k = 0; k <= H_T; ++k) if (!vo_member(A[k])) members = false;
  bool consistent = members && ulen == 2 && sig > -H_Q && sig < H_Q && tau > -H_Q && tau < H_Q && vo_commit(sig, tau) == vo_eval(A, H_T, H_I + 1);
  bool own_complained = vn_obn > 0 && vn_ob[0] == H_D;
  vf_assert(vn_obn >= 1 && vn_ob[vn_obn - 1] == H_N, "the receiver terminates its complaint list with the end marker");
  vf_assert(own_complained == !consistent, "a complaint is broadcast exactly if the received share does not verify against the commitments");
  unsigned counter = own_complained ? 1 : 0;
#if H_N > 2
  // what the receiver reads from the third party: entries up to the first end marker, at most n+1, at most the tape
  bool o_complained = false, o_bad = false, o_done = false;
  for (unsigned k = 0; k < 3 && k < olen && !o_done; ++k) { if (w[k] >= H_N) o_done = true; else if (w[k] == H_D) o_complained = true; else o_bad = true; }
  if (o_complained) counter++;
  bool answer_ok = dlen >= H_T + 4 && rwho == H_O && rs > -H_Q && rs < H_Q && rt > -H_Q && rt < H_Q && vo_commit(rs, rt) == vo_eval(A, H_T, H_O + 1);
#else
  bool o_complained = false, answer_ok = true;
#endif
  if (ok) {
    vf_assert(counter <= H_T, "accepted => at most t parties complained against the dealer");
    if (o_complained) vf_assert(answer_ok, "accepted => the dealer answered the other party's complaint with a pair that verifies");
    if (!own_complained) {
      vf_assert(vfh_val(v->sigma_i) == sig && vfh_val(v->tau_i) == tau, "accepted without own complaint => the stored share is the received one");
      vf_assert(vo_commit(vfh_val(v->sigma_i), vfh_val(v->tau_i)) == vo_eval(A, H_T, H_I + 1), "accepted without own complaint => stored share verifies");
      for (unsigned k = 0; k <= H_T; ++k) vf_assert(vo_member(vfh_val(v->A_j[k])) && vfh_val(v->A_j[k]) == A[k], "stored commitments are the broadcast group elements");
    }
#ifdef H_RESOLVE
    // C15: "a dealer who hands out shares inconsistent with its commitments is either disqualified or forced to publish
    // consistent ones": a receiver that complained and still accepts must hold a share that verifies
    if (own_complained) vf_assert(members && vo_commit(vfh_val(v->sigma_i), vfh_val(v->tau_i)) == vo_eval(A, H_T, H_I + 1), "accepted after own complaint => the stored share was replaced by a published pair that verifies");
#endif
  } else {
    vf_assert(counter > 0, "a dealer nobody complained about is not disqualified");
    if (counter <= H_T && !own_complained) vf_assert(o_complained && !answer_ok, "refused with at most t complaints => a public answer was missing or wrong");
  }
  H_END();
}
