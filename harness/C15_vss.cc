// C15: Pedersen VSS (PedersenVSS::Share / Reconstruct) - one real party against an ideal tape network (vfh_net.hh)
//  h_pvss_recv      receiver against an arbitrary dealer (and an arbitrary third party): complaint <=> share inconsistent,
//                   acceptance => at most t complaints, every publicly answered complaint verifies, stored share verifies
//  h_pvss_dealer    honest dealer, all coins symbolic: what it sends satisfies the share check, sigma_j = f(j+1), f(0) = secret;
//                   complaints are answered with the consistent pair; more than t complaints => gives up
//  h_pvss_reconstruct  Reconstruct returns the dealer's secret from t+1 verified shares; a wrong share is filtered
#include "vfh_net.hh"
#include "PedersenVSS.hh"
#ifndef H_P
#define H_P 11
#define H_Q 5
#define H_G 3
#define H_K 2
#endif
#ifndef H_N
#define H_N 3
#define H_T 1
#define H_I 1
#define H_D 0
#endif
#define H_O (3 - H_I - H_D)        /* the third party when n = 3 */
#ifndef H_OT
#define H_OT 0
#endif
#ifndef H_RWHO
#define H_RWHO H_O     /* who-value of the dealer's public answer: concrete per slice (it is used as a std::map key) */
#endif
#ifndef H_AFULL
#define H_AFULL 1
#endif
#ifndef H_CUT
#define H_CUT 1
#endif
#ifndef H_SLO
#define H_SLO (-H_Q)
#endif
#ifndef H_RLO
#define H_RLO 0
#endif
static PedersenVSS *mkpvss(size_t i) { Z P(H_P), Q(H_Q), G(H_G), Hh(H_H); return new PedersenVSS(H_N, H_T, i, P, Q, G, Hh, 2, 2, false, ""); }

// ------------------------------------------------------------------------------------------------ receiver
H_ENTRY(h_pvss_recv) {
  PedersenVSS *v = mkpvss(H_I);
  VNetUnicast *aiou = vn_aiou(H_N, H_I); CachinKursawePetzoldShoupRBC *rbc = vn_rbc(H_N, H_T, H_I);
  // dealer: commitments, then (for the public complaint resolution) one answer (who, s, s'); cut anywhere.
  // Cost control (one query must stay below ~1e5 combinations): H_AFULL=1 commitments range over [-1,p+2), else over the group;
  // H_SLO / H_RLO = lower end of the share pair / published pair range (-q or 0); H_CUT=1 symbolic tape lengths.
  long A[H_T + 1];
  for (unsigned k = 0; k <= H_T; ++k) {
#if H_AFULL
    A[k] = vfh_range(-1, H_P + 2);
#else
    static const long GEL[3] = { 1, H_G, (H_G * H_G) % H_P };          // members used: 1, g, g^2 (all of G for q = 3)
    A[k] = GEL[vf_nondet_below(3)];
#endif
    vn_bpush(H_D, A[k]);
  }
#if H_N > 2
  long rwho = H_RWHO, rs = vfh_range(H_RLO, H_Q + 1), rt = vfh_range(H_RLO, H_Q + 1);
  vn_bpush(H_D, rwho); vn_bpush(H_D, rs); vn_bpush(H_D, rt);
#endif
  long sig = vfh_range(H_SLO, H_Q + 1), tau = vfh_range(H_SLO, H_Q + 1);
  vn_upush(H_D, sig); vn_upush(H_D, tau);
#if H_CUT
  unsigned dlen = vn_bcut(H_D), ulen = vn_ucut(H_D);
#else
  unsigned dlen = vn_bl[H_D], ulen = 2;
#endif
#if H_N > 2
  // third party: its complaint list is CONCRETE per slice (H_OT) - a symbolic list makes the sizes of the library's complaint
  // vectors and the shape of its std::map symbolic, which the engine cannot unroll (see notes/C15.md):
  //  0: end marker only   1: complaint against the dealer   2: silent (timeout)   3: complaint, then silent
  //  4: complaint against the receiver (irrelevant one)     5: the same complaint twice
  static const long OT[6][3] = { { H_N, 0, 0 }, { H_D, H_N, 0 }, { 0, 0, 0 }, { H_D, 0, 0 }, { H_I, H_N, 0 }, { H_D, H_D, H_N } };
  static const unsigned OTL[6] = { 1, 2, 0, 1, 2, 3 };
  long w[3]; unsigned olen = OTL[H_OT];
  for (unsigned k = 0; k < 3; ++k) { w[k] = OT[H_OT][k]; if (k < olen) vn_bpush(H_O, w[k]); }
#endif
  bool ok = false;
  H_TRY(ok = v->Share((size_t)H_D, aiou, rbc, std::cerr, false));
  vf_assert(vfh_exc == 0, "Share(dealer) returns");
  // ---- oracle
  bool members = dlen >= H_T + 1; for (unsigned k = 0; k <= H_T; ++k) if (!vo_member(A[k])) members = false;
  bool consistent = members && ulen == 2 && sig > -H_Q && sig < H_Q && tau > -H_Q && tau < H_Q && vo_commit(sig, tau) == vo_eval(A, H_T, H_I + 1);
  bool own_complained = vn_obn > 0 && vn_ob[0] == H_D;
  vf_assert(vn_obn >= 1 && vn_ob[vn_obn - 1] == H_N, "the receiver terminates its complaint list with the end marker");
  vf_assert(own_complained == !consistent, "a complaint is broadcast exactly if the received share does not verify against the commitments");
  unsigned counter = own_complained ? 1 : 0;
#if H_N > 2
  // what the receiver reads from the third party: entries up to the first end marker, at most n+1, at most the tape
  bool o_complained = false, o_bad = false, o_done = false;
  for (unsigned k = 0; k < 3 && k < olen && !o_done; ++k) { if (w[k] >= H_N) o_done = true; else if (w[k] == H_D) o_complained = true; else o_bad = true; }
  if (o_complained) counter++;
  bool answer_ok = dlen >= H_T + 4 && rwho == H_O && rs > -H_Q && rs < H_Q && rt > -H_Q && rt < H_Q && vo_commit(rs, rt) == vo_eval(A, H_T, H_O + 1);
#else
  bool o_complained = false, answer_ok = true;
#endif
  if (ok) {
    vf_assert(counter <= H_T, "accepted => at most t parties complained against the dealer");
    if (o_complained) vf_assert(answer_ok, "accepted => the dealer answered the other party's complaint with a pair that verifies");
    if (!own_complained) {
      vf_assert(vfh_val(v->sigma_i) == sig && vfh_val(v->tau_i) == tau, "accepted without own complaint => the stored share is the received one");
      vf_assert(vo_commit(vfh_val(v->sigma_i), vfh_val(v->tau_i)) == vo_eval(A, H_T, H_I + 1), "accepted without own complaint => stored share verifies");
      for (unsigned k = 0; k <= H_T; ++k) vf_assert(vo_member(vfh_val(v->A_j[k])) && vfh_val(v->A_j[k]) == A[k], "stored commitments are the broadcast group elements");
    }
#ifdef H_RESOLVE
    // C15: "a dealer who hands out shares inconsistent with its commitments is either disqualified or forced to publish
    // consistent ones": a receiver that complained and still accepts must hold a share that verifies
    if (own_complained) vf_assert(members && vo_commit(vfh_val(v->sigma_i), vfh_val(v->tau_i)) == vo_eval(A, H_T, H_I + 1), "accepted after own complaint => the stored share was replaced by a published pair that verifies");
#endif
  } else {
    vf_assert(counter > 0, "a dealer nobody complained about is not disqualified");
    if (counter <= H_T && !own_complained) vf_assert(o_complained && !answer_ok, "refused with at most t complaints => a public answer was missing or wrong");
  }
  H_END();
}

// ------------------------------------------------------------------------------------------------ dealer
// honest dealer H_I, secret and all polynomial coins symbolic; the receivers' complaint lists are concrete per slice (H_CT):
//  0: nobody complains   1: the first receiver complains   2: both receivers complain (> t)   3: first receiver silent (no end marker)
#ifndef H_CT
#define H_CT 0
#endif
H_ENTRY(h_pvss_dealer) {
  PedersenVSS *v = mkpvss(H_I);
  VNetUnicast *aiou = vn_aiou(H_N, H_I); CachinKursawePetzoldShoupRBC *rbc = vn_rbc(H_N, H_T, H_I);
  unsigned o1 = (H_I == 0) ? 1 : 0, o2 = (H_I == 2) ? 1 : 2;      // the other parties in ascending order (n = 3), o1 only (n = 2)
  if (H_CT == 1 || H_CT == 2) vn_bpush(o1, H_I);
  if (H_CT != 3) vn_bpush(o1, H_N);
#if H_N > 2
  if (H_CT == 2) vn_bpush(o2, H_I);
  vn_bpush(o2, H_N);
#endif
  long secret = vfh_range(0, H_Q); Z S(secret);
  bool ok = false;
  H_TRY(ok = v->Share((mpz_srcptr)S, aiou, rbc, std::cerr, false));
  vf_assert(vfh_exc == 0, "Share(sigma) returns");
  long a[H_T + 1], b[H_T + 1], A[H_T + 1];
  for (unsigned k = 0; k <= H_T; ++k) { a[k] = vfh_val(v->a_j[k]); b[k] = vfh_val(v->b_j[k]); }
  vf_assert(a[0] == secret, "f(0) is the secret");
  vf_assert(vn_obn >= H_T + 1, "all commitments are broadcast");
  for (unsigned k = 0; k <= H_T; ++k) {
    A[k] = vn_ob[k];
    vf_assert(a[k] >= 0 && a[k] < H_Q && b[k] >= 0 && b[k] < H_Q, "coefficients are residues modulo q");
    vf_assert(A[k] == vo_commit(a[k], b[k]) && A[k] == vfh_val(v->A_j[k]), "broadcast commitment A_k = g^a_k h^b_k");
  }
  for (unsigned j = 0; j < H_N; ++j) if (j != H_I) {
    vf_assert(vn_osn[j] == 2, "every receiver is sent exactly one pair");
    long sj = vn_sent(j, 0), tj = vn_sent(j, 1);
    vf_assert(sj == vo_poly(a, H_T, j + 1) && tj == vo_poly(b, H_T, j + 1), "the pair sent to P_j is (f(j+1), f'(j+1)) modulo q");
    vf_assert(vo_commit(sj, tj) == vo_eval(A, H_T, j + 1), "the pair sent to P_j passes the share check against the broadcast commitments");
  }
  if (H_CT == 0 || H_CT == 3) vf_assert(ok && vn_obn == H_T + 1, "no complaint: the dealer finishes and publishes nothing else");
  if (H_CT == 1 && H_T >= 1) {
    vf_assert(ok && vn_obn == H_T + 4, "one complaint: the dealer finishes after one public answer");
    vf_assert(vn_ob[H_T + 1] == (long)o1 && vn_ob[H_T + 2] == vn_sent(o1, 0) && vn_ob[H_T + 3] == vn_sent(o1, 1), "the public answer is the complainer's index and exactly the pair sent before");
  }
  if ((H_CT == 1 && H_T == 0) || H_CT == 2) vf_assert(!ok, "more than t complaints: the dealer gives up (disqualified)");
  if (ok) vf_assert(vfh_val(v->sigma_i) == vo_poly(a, H_T, H_I + 1) && vfh_val(v->tau_i) == vo_poly(b, H_T, H_I + 1), "the dealer's own share is (f(i+1), f'(i+1))");
  H_END();
}

// ------------------------------------------------------------------------------------------------ reconstruction
// receiver H_I holds an honest dealing (coefficients symbolic); the other non-dealer parties offer arbitrary pairs.
//  n = 3: t+1 = 2 shares needed: own + the third party's, which must verify;  n = 4 (H_N4): third party arbitrary, fourth honest:
//  the wrong share is filtered and the secret still comes out.
H_ENTRY(h_pvss_reconstruct) {
  PedersenVSS *v = mkpvss(H_I);
  CachinKursawePetzoldShoupRBC *rbc = vn_rbc(H_N, H_T, H_I);
  long a[H_T + 1], b[H_T + 1], A[H_T + 1];
  for (unsigned k = 0; k <= H_T; ++k) { a[k] = vfh_range(0, H_Q); b[k] = vfh_range(0, H_Q); A[k] = vo_commit(a[k], b[k]); mpz_set_si(v->A_j[k], A[k]); }
  long si = vo_poly(a, H_T, H_I + 1), ti = vo_poly(b, H_T, H_I + 1);
  vf_assume(si != 0 && ti != 0);       // the library treats a zero component as "no share stored" (stated exceptional set, see notes)
  mpz_set_si(v->sigma_i, si); mpz_set_si(v->tau_i, ti);
  // offered pairs: arbitrary from the first other party (incl. out-of-range and one value beyond the exponentiation table), honest from the rest
  long os_ = vfh_range(-H_Q, H_Q + 2), ot = vfh_range(-H_Q, H_Q + 2);
#ifdef H_BIG
  if (os_ == H_Q + 1) os_ = H_BIG; if (ot == H_Q + 1) ot = H_BIG;        // a value with more bits than TMCG_MAX_FPOWM_T
#else
  vf_assume(os_ <= H_Q && ot <= H_Q);
#endif
  unsigned first = H_N; bool first_ok = false;
  for (unsigned j = 0; j < H_N; ++j) if (j != H_I && j != H_D) {
    if (first == H_N) { first = j; vn_bpush(j, os_); vn_bpush(j, ot); }
    else { vn_bpush(j, vo_poly(a, H_T, j + 1)); vn_bpush(j, vo_poly(b, H_T, j + 1)); }
  }
  unsigned flen = vn_bcut(first);
  first_ok = flen == 2 && ot > -H_Q && ot < H_Q && os_ > -H_Q && os_ < H_Q && vo_commit(os_, ot) == vo_eval(A, H_T, first + 1);
  Z out; mpz_set_si(out, -77);
  bool ok = false;
  H_TRY(ok = v->Reconstruct((size_t)H_D, out, rbc, std::cerr));
  vf_assert(vfh_exc == 0, "Reconstruct returns (no exception escapes)");
  vf_assert(vn_obn == 2 && vn_ob[0] == si && vn_ob[1] == ti, "the party broadcasts its own pair");
#if H_N == 3
  vf_assert(ok == first_ok, "n = 3, t = 1: reconstruction succeeds exactly if the other party's pair verifies");
#else
  vf_assert(ok, "n = 4, t = 1: one wrong pair does not prevent reconstruction");
#endif
  if (ok) vf_assert(out.get() == a[0], "the reconstructed value is the dealer's secret f(0)");
  H_END();
}
