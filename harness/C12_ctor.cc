// C12: stream / parameter constructors fed hostile integers (zero, negative, tiny) must end in a clean refusal:
// an exception of the standard family or an object whose CheckGroup() then fails - never process death.
#include "vfh_proto.hh"
#include "BarnettSmartVTMF_dlog.hh"
#include "PedersenVSS.hh"
#include "NaorPinkasEOTP.hh"
#ifndef H_P
#define H_P 0
#endif
H_ENTRY(h_ctor_pvss) {
  long q = vfh_range(-1, 8), g = vfh_range(-1, 8), h = vfh_range(-1, 8);
  Z P(H_P), Q(q), G(g), Hh(h);
  PedersenVSS *v = 0; bool ok = false;
  H_TRY(v = new PedersenVSS(3, 1, 0, P, Q, G, Hh, 3, 2, false, "x"));
  vf_assert(vfh_exc == 0 || vfh_exc == 1, "constructor refuses with a standard exception or returns");
  if (vfh_exc == 0) { H_TRY(ok = v->CheckGroup()); vf_assert(vfh_exc == 0 || vfh_exc == 1, "CheckGroup returns or throws a standard exception"); }
  H_END();
}
H_ENTRY(h_ctor_vtmf_stream) {
  long q = vfh_range(-1, 8), g = vfh_range(-1, 8), k = vfh_range(-1, 8);
  std::stringstream in; vfh_put(in, H_P); vfh_put(in, q); vfh_put(in, g); vfh_put(in, k);
  BarnettSmartVTMF_dlog *v = 0; bool ok = false;
  H_TRY(v = new BarnettSmartVTMF_dlog(in, 3, 2, false, true));
  vf_assert(vfh_exc == 0 || vfh_exc == 1, "stream constructor refuses with a standard exception or returns");
  if (vfh_exc == 0) { H_TRY(ok = v->CheckGroup()); vf_assert(vfh_exc == 0 || vfh_exc == 1, "CheckGroup returns or throws a standard exception"); }
  H_END();
}
H_ENTRY(h_ctor_eotp) {
  long q = vfh_range(-1, 8), g = vfh_range(-1, 8);
  Z P(H_P), Q(q), G(g);
  NaorPinkasEOTP *v = 0; bool ok = false;
  H_TRY(v = new NaorPinkasEOTP(P, Q, G, 3, 2));
  vf_assert(vfh_exc == 0 || vfh_exc == 1, "constructor refuses with a standard exception or returns");
  if (vfh_exc == 0) { H_TRY(ok = v->CheckGroup()); vf_assert(vfh_exc == 0 || vfh_exc == 1, "CheckGroup returns or throws a standard exception"); }
  H_END();
}
