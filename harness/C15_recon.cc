// C15 / C17: reconstruction and multi-complaint kernels with CONCRETE dealings and a symbolic deviation (cheap queries):
//  h_pvss_recon_delta   PedersenVSS::Reconstruct, n=3,t=1: own share + the other party's (honest pair + (d1,d2)): succeeds <=> d = 0, returns f(0)
//  h_rvss_recon_delta   JareckiLysyanskayaRVSS::Reconstruct, n=3,t=1 (n = 2t+1, one deviator being reconstructed): the two honest
//                       shares suffice; result = committed value; a deviating pair from the helper is refused (not enough shares)
//  h_pvss_two_answers   PedersenVSS::Share as non-complaining receiver, n=5,t=2, two public answers: accepted <=> both verify
#include "vfh_net.hh"
#include "PedersenVSS.hh"
#include "JareckiLysyanskayaASTC.hh"
#ifndef H_P
#define H_P 7
#define H_Q 3
#define H_G 2
#define H_K 2
#endif
#ifndef H_N
#define H_N 3
#define H_T 1
#endif
// the dealt polynomials (concrete per slice): f(z) = sum CA[k] z^k, f'(z) = sum CB[k] z^k
#ifndef H_CA
#define H_CA { 1, 2, 1 }
#define H_CB { 2, 1, 2 }
#endif
static const long CA[3] = H_CA, CB[3] = H_CB;

H_ENTRY(h_pvss_recon_delta) {
  Z P(H_P), Q(H_Q), G(H_G), Hh(H_H);
  PedersenVSS *v = new PedersenVSS(3, 1, 1, P, Q, G, Hh, 2, 2, false, "");       // receiver P_1, dealer P_0
  CachinKursawePetzoldShoupRBC *rbc = vn_rbc(3, 1, 1);
  long A[2]; for (unsigned k = 0; k < 2; ++k) { A[k] = vo_commit(CA[k], CB[k]); mpz_set_si(v->A_j[k], A[k]); }
  long si = vo_poly(CA, 1, 2), ti = vo_poly(CB, 1, 2);                            // own pair (both non-zero for the polynomials used)
  mpz_set_si(v->sigma_i, si); mpz_set_si(v->tau_i, ti);
  long d1 = vfh_range(0, H_Q), d2 = vfh_range(0, H_Q);
  long s2 = (vo_poly(CA, 1, 3) + d1) % H_Q, t2 = (vo_poly(CB, 1, 3) + d2) % H_Q;
  vn_bpush(2, s2); vn_bpush(2, t2);
  unsigned len = vn_bcut(2);
  Z out; mpz_set_si(out, -77);
  bool ok = false; H_TRY(ok = v->Reconstruct((size_t)0, out, rbc, std::cerr));
  vf_assert(vfh_exc == 0, "Reconstruct returns");
  vf_assert(vn_obn == 2 && vn_ob[0] == si && vn_ob[1] == ti, "the party broadcasts its own pair");
  vf_assert(ok == (len == 2 && d1 == 0 && d2 == 0), "n=3,t=1: reconstruction succeeds exactly if the helper's pair verifies (t+1 = 2 verified shares)");
  if (ok) vf_assert(out.get() == CA[0], "the reconstructed value is the dealer's secret f(0)");
  H_END();
}

H_ENTRY(h_rvss_recon_delta) {
  Z P(H_P), Q(H_Q), G(H_G), Hh(H_H);
  JareckiLysyanskayaRVSS *r = new JareckiLysyanskayaRVSS(3, 1, P, Q, G, Hh, 2, 2);
  CachinKursawePetzoldShoupRBC *rbc = vn_rbc(3, 1, 0);                            // real party P_0; P_1 deviated and is reconstructed; P_2 helps
  for (size_t j = 0; j < 3; ++j) r->Qual.push_back(j);
  for (unsigned k = 0; k < 2; ++k) mpz_set_si(r->C_ik[1][k], vo_commit(CA[k], CB[k]));
  long s0 = vo_poly(CA, 1, 1), t0 = vo_poly(CB, 1, 1);
  mpz_set_si(r->alpha_ij[1][0], s0); mpz_set_si(r->hatalpha_ij[1][0], t0);
  long d1 = vfh_range(0, H_Q), d2 = vfh_range(0, H_Q);
  long s2 = (vo_poly(CA, 1, 3) + d1) % H_Q, t2 = (vo_poly(CB, 1, 3) + d2) % H_Q;
  vn_bpush(2, s2); vn_bpush(2, t2);
  unsigned len = vn_bcut(2);
  std::vector<size_t> complaints; complaints.push_back(1);
  std::vector<mpz_ptr> a_i; for (unsigned j = 0; j < 3; ++j) { mpz_ptr t = new mpz_t(); mpz_init_set_si(t, -77); a_i.push_back(t); }
  bool ok = false; H_TRY(ok = r->Reconstruct(0, complaints, a_i, rbc, std::cerr));
  vf_assert(vfh_exc == 0, "Reconstruct returns");
  vf_assert(vn_obn == 2 && vn_ob[0] == s0 && vn_ob[1] == t0, "the party broadcasts its own share of the deviator's dealing");
  vf_assert(ok == (len == 2 && d1 == 0 && d2 == 0), "n = 2t+1 = 3, one deviator: own share plus one verified share suffice (t+1), an unverified one does not count");
  if (ok) vf_assert(vfh_val(a_i[1]) == CA[0], "the reconstructed value is the value the deviator committed to");
  vf_assert(vfh_val(a_i[0]) == -77 && vfh_val(a_i[2]) == -77, "only the complained-about party's value is written");
  H_END();
}

// n = 5, t = 2, receiver P_1 (does not complain: its pair is honest), dealer P_0; P_2 and P_3 complain, P_4 does not.
// The dealer answers both publicly: (2, f(3)+d1, f'(3)), (3, f(4)+d2, f'(4)).
H_ENTRY(h_pvss_two_answers) {
  Z P(H_P), Q(H_Q), G(H_G), Hh(H_H);
  PedersenVSS *v = new PedersenVSS(5, 2, 1, P, Q, G, Hh, 2, 2, false, "");
  VNetUnicast *aiou = vn_aiou(5, 1); CachinKursawePetzoldShoupRBC *rbc = vn_rbc(5, 2, 1);
  long A[3]; for (unsigned k = 0; k < 3; ++k) { A[k] = vo_commit(CA[k], CB[k]); vn_bpush(0, A[k]); }
  long d1 = vfh_range(0, 3), d2 = vfh_range(0, 3);
  vn_bpush(0, 2); vn_bpush(0, (vo_poly(CA, 2, 3) + d1) % H_Q); vn_bpush(0, vo_poly(CB, 2, 3));
  vn_bpush(0, 3); vn_bpush(0, (vo_poly(CA, 2, 4) + d2) % H_Q); vn_bpush(0, vo_poly(CB, 2, 4));
  vn_upush(0, vo_poly(CA, 2, 2)); vn_upush(0, vo_poly(CB, 2, 2));
  vn_bpush(2, 0); vn_bpush(2, 5); vn_bpush(3, 0); vn_bpush(3, 5); vn_bpush(4, 5);
  bool ok = false; H_TRY(ok = v->Share((size_t)0, aiou, rbc, std::cerr, false));
  vf_assert(vfh_exc == 0, "Share(dealer) returns");
  vf_assert(vn_obn == 1 && vn_ob[0] == 5, "the receiver does not complain (its own pair verifies)");
  vf_assert(ok == (d1 == 0 && d2 == 0), "two complaints (<= t): accepted exactly if BOTH public answers verify (a wrong first answer is not forgotten)");
  if (ok) vf_assert(vfh_val(v->sigma_i) == vo_poly(CA, 2, 2) && vfh_val(v->tau_i) == vo_poly(CB, 2, 2), "own share unchanged");
  H_END();
}
