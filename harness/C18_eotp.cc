// C18: oblivious transfer (Naor-Pinkas): chooser gets M_sigma; sender aborts on coinciding / non-group query elements
#include "vfh_proto.hh"
#include "NaorPinkasEOTP.hh"
#ifndef H_P
#define H_P 11
#define H_Q 5
#define H_G 3
#define H_K 2
#endif
#ifndef H_N
#define H_N 3
#endif
static NaorPinkasEOTP *mk() { Z P(H_P), Q(H_Q), G(H_G); return new NaorPinkasEOTP(P, Q, G, 2, 2); }
static bool member(long a) { if (a <= 0 || a >= H_P) return false; long r = 1, b = a; for (long e = H_Q; e; e >>= 1) { if (e & 1) r = (r * b) % H_P; b = (b * b) % H_P; } return r == 1; }

// honest run of the 1-of-N protocol: first move (chooser), reply (sender), second half of the chooser with identical coins
H_ENTRY(h_ot_n) {
  NaorPinkasEOTP *ot = mk();
  size_t sigma = (size_t)vf_nondet_below(H_N);
  std::vector<mpz_ptr> M;
  for (unsigned i = 0; i < H_N; ++i) { mpz_ptr m = new mpz_t(); mpz_init(m); Z e; vfh_mpz(e, 0, H_Q); mpz_powm(m, ot->g, e, ot->p); M.push_back(m); }
  Z got; std::stringstream nothing, first, reply, sink;
  unsigned c0 = vfh_ncoins;
  H_TRY(ot->Choose_interactive_OneOutOfN(sigma, H_N, got, nothing, first));    // writes the first move, then finds no reply
  unsigned c1 = vfh_ncoins;
  bool sent = false; H_TRY(sent = ot->Send_interactive_OneOutOfN(M, first, reply));
  vf_assert(vfh_exc == 0, "sender does not throw on an honest first move");
  // exceptional set at toy size: a random z_i coincides with another one -> sender aborts (it would open two messages)
  vf_assume(sent);
  vfh_replay_coins(c0, c1);
  bool ok = false; H_TRY(ok = ot->Choose_interactive_OneOutOfN(sigma, H_N, got, reply, sink));
  vf_assert(vfh_exc == 0 && ok, "chooser accepts the honest reply");
  vf_assert(mpz_cmp(got, M[sigma]) == 0, "chooser outputs the message at the chosen index");
  H_END();
}

// arbitrary first move: the sender answers only if every query element is in the group and the z_i are pairwise distinct
H_ENTRY(h_ot_n_firstmove) {
  NaorPinkasEOTP *ot = mk();
  std::vector<mpz_ptr> M;
  for (unsigned i = 0; i < H_N; ++i) { mpz_ptr m = new mpz_t(); mpz_init_set_ui(m, 1); M.push_back(m); }
  long v[2 + H_N]; std::stringstream first, reply;
  for (unsigned i = 0; i < 2 + H_N; ++i) { v[i] = vfh_range(-1, H_P + 2); vfh_put(first, v[i]); }
  bool sent = false; H_TRY(sent = ot->Send_interactive_OneOutOfN(M, first, reply));
  vf_assert(vfh_exc == 0, "sender does not throw on an arbitrary first move");
  bool fine = true;
  for (unsigned i = 0; i < 2 + H_N; ++i) if (!member(v[i])) fine = false;
  for (unsigned i = 0; i < H_N; ++i) for (unsigned j = 0; j < i; ++j) if (v[2 + i] == v[2 + j]) fine = false;
  vf_assert(sent == fine, "sender answers exactly the first moves with group elements and pairwise distinct z_i");
  H_END();
}
