// C18: oblivious transfer (Naor-Pinkas): chooser gets M_sigma; sender aborts on coinciding / non-group query elements
#include "vfh_proto.hh"
#include "NaorPinkasEOTP.hh"
#ifndef H_P
#define H_P 11
#define H_Q 5
#define H_G 3
#define H_K 2
#endif
#ifndef H_N
#define H_N 3
#endif
static NaorPinkasEOTP *mk() { Z P(H_P), Q(H_Q), G(H_G); return new NaorPinkasEOTP(P, Q, G, 2, 2); }
static bool member(long a) { if (a <= 0 || a >= H_P) return false; long r = 1, b = a; for (long e = H_Q; e; e >>= 1) { if (e & 1) r = (r * b) % H_P; b = (b * b) % H_P; } return r == 1; }

// honest run of the 1-of-N protocol: first move (chooser), reply (sender), second half of the chooser with identical coins
H_ENTRY(h_ot_n) {
  NaorPinkasEOTP *ot = mk();
  size_t sigma = (size_t)vf_nondet_below(H_N);
  std::vector<mpz_ptr> M;
  for (unsigned i = 0; i < H_N; ++i) { mpz_ptr m = new mpz_t(); mpz_init(m); Z e; vfh_mpz(e, 0, H_Q); mpz_powm(m, ot->g, e, ot->p); M.push_back(m); }
  Z got; std::stringstream nothing, first, reply, sink;
  unsigned c0 = vfh_ncoins;
  H_TRY(ot->Choose_interactive_OneOutOfN(sigma, H_N, got, nothing, first));    // writes the first move, then finds no reply
  unsigned c1 = vfh_ncoins;
  bool sent = false; H_TRY(sent = ot->Send_interactive_OneOutOfN(M, first, reply));
  vf_assert(vfh_exc == 0, "sender does not throw on an honest first move");
  // exceptional set at toy size: a random z_i coincides with another one -> sender aborts (it would open two messages)
  vf_assume(sent);
  vfh_replay_coins(c0, c1);
  bool ok = false; H_TRY(ok = ot->Choose_interactive_OneOutOfN(sigma, H_N, got, reply, sink));
  vf_assert(vfh_exc == 0 && ok, "chooser accepts the honest reply");
  vf_assert(mpz_cmp(got, M[sigma]) == 0, "chooser outputs the message at the chosen index");
  H_END();
}

// arbitrary first move: the sender answers only if every query element is in the group and the z_i are pairwise distinct
H_ENTRY(h_ot_n_firstmove) {
  NaorPinkasEOTP *ot = mk();
  std::vector<mpz_ptr> M;
  for (unsigned i = 0; i < H_N; ++i) { mpz_ptr m = new mpz_t(); mpz_init_set_ui(m, 1); M.push_back(m); }
  long v[2 + H_N]; std::stringstream first, reply;
  for (unsigned i = 0; i < 2 + H_N; ++i) { v[i] = vfh_range(-1, H_P + 2); vfh_put(first, v[i]); }
  bool sent = false; H_TRY(sent = ot->Send_interactive_OneOutOfN(M, first, reply));
  vf_assert(vfh_exc == 0, "sender does not throw on an arbitrary first move");
  bool fine = true;
  for (unsigned i = 0; i < 2 + H_N; ++i) if (!member(v[i])) fine = false;
  for (unsigned i = 0; i < H_N; ++i) for (unsigned j = 0; j < i; ++j) if (v[2 + i] == v[2 + j]) fine = false;
  vf_assert(sent == fine, "sender answers exactly the first moves with group elements and pairwise distinct z_i");
  H_END();
}

// ---------------------------------------------------------------- 1-of-2 protocol (its own code path, not the N = 2 case of 1-of-N)
H_ENTRY(h_ot_2) {
  NaorPinkasEOTP *ot = mk();
  size_t sigma = (size_t)vf_nondet_below(2);
  Z M0, M1; { Z e; vfh_mpz(e, 0, H_Q); mpz_powm(M0, ot->g, e, ot->p); vfh_mpz(e, 0, H_Q); mpz_powm(M1, ot->g, e, ot->p); }
  Z got; std::stringstream nothing, first, reply, sink;
  unsigned c0 = vfh_ncoins;
  H_TRY(ot->Choose_interactive_OneOutOfTwo(sigma, got, nothing, first));        // coins a, b, c_other; first move; finds no reply
  unsigned c1 = vfh_ncoins;
  long a = (long)vfh_coinlog[c0], b = (long)vfh_coinlog[c0 + 1], cother = (long)vfh_coinlog[c0 + 2];
  bool sent = false; H_TRY(sent = ot->Send_interactive_OneOutOfTwo(M0, M1, first, reply));   // coins r0, s0, r1, s1
  vf_assert(vfh_exc == 0, "sender does not throw on an honest first move");
  // exact exceptional set: the random c of the other branch equals a*b, then z_0 == z_1 and the sender must refuse
  vf_assert(sent == (cother != (a * b) % H_Q), "sender answers an honest first move unless both query elements coincide");
  if (sent) {
    long s_other = (long)vfh_coinlog[c1 + (sigma == 0 ? 3 : 1)];
    std::string rep = reply.str(); std::stringstream reply2(rep);
    vfh_replay_coins(c0, c1);
    bool ok = false; H_TRY(ok = ot->Choose_interactive_OneOutOfTwo(sigma, got, reply, sink));
    vf_assert(vfh_exc == 0 && ok, "chooser accepts the honest reply");
    vf_assert(mpz_cmp(got, sigma == 0 ? (mpz_srcptr)M0 : (mpz_srcptr)M1) == 0, "1-of-2: chooser outputs the message at the chosen index");
#ifdef H_OTHER
    // the other ciphertext under the chooser's own secret b: opens to the other message only in the exact exceptional set s_other == 0
    // (c_other == a*b is excluded above): key_other / w_other^b = g^(s_other * (c_other - a*b))
    Z w0, e0, w1, e1; reply2 >> (mpz_ptr)w0 >> (mpz_ptr)e0 >> (mpz_ptr)w1 >> (mpz_ptr)e1;
    Z t, inv; mpz_powm_ui(t, sigma == 0 ? (mpz_srcptr)w1 : (mpz_srcptr)w0, (unsigned long)b, ot->p); mpz_invert(inv, t, ot->p);
    mpz_mul(t, sigma == 0 ? (mpz_srcptr)e1 : (mpz_srcptr)e0, inv); mpz_mod(t, t, ot->p);
    bool opens = mpz_cmp(t, sigma == 0 ? (mpz_srcptr)M1 : (mpz_srcptr)M0) == 0;
    vf_assert(opens == (s_other == 0), "the ciphertext not chosen opens under the chooser's secret exactly when the sender's s coin vanishes");
#endif
    (void)s_other; (void)reply2;
  }
  H_END();
}
H_ENTRY(h_ot_2_firstmove) {
  NaorPinkasEOTP *ot = mk();
  Z M0(1), M1(1); long v[4]; std::stringstream first, reply;
  unsigned ntok = 4;
#ifdef H_SHORT
  ntok = (unsigned)vf_nondet_below(5);
#endif
  for (unsigned i = 0; i < 4; ++i) { v[i] = vfh_range(-1, H_P + 2); if (i < ntok) vfh_put(first, v[i]); }
  bool sent = false; H_TRY(sent = ot->Send_interactive_OneOutOfTwo(M0, M1, first, reply));
  vf_assert(vfh_exc == 0 || vfh_exc == 1, "sender ends with a result or a standard exception on an arbitrary first move");
  bool fine = ntok == 4 && v[2] != v[3];
  for (unsigned i = 0; i < 4; ++i) if (!member(v[i])) fine = false;
  if (vfh_exc == 0) vf_assert(sent == fine, "1-of-2 sender answers exactly the first moves with four group elements and z_0 != z_1");
  else vf_assert(ntok < 4, "a standard exception only on a truncated first move");
  if (!(vfh_exc == 0 && sent)) vf_assert(reply.str().size() == 0, "a refused first move gets no ciphertexts");
  H_END();
}
// ---------------------------------------------------------------- optimised 1-of-N (one query element, z_i = z_0 * g^i)
H_ENTRY(h_ot_nopt) {
  NaorPinkasEOTP *ot = mk();
  size_t sigma = (size_t)vf_nondet_below(H_N);
  std::vector<mpz_ptr> M;
  for (unsigned i = 0; i < H_N; ++i) { mpz_ptr m = new mpz_t(); mpz_init(m); Z e; vfh_mpz(e, 0, H_Q); mpz_powm(m, ot->g, e, ot->p); M.push_back(m); }
  Z got; std::stringstream nothing, first, reply, sink;
  unsigned c0 = vfh_ncoins;
  H_TRY(ot->Choose_interactive_OneOutOfN_optimized(sigma, H_N, got, nothing, first));
  unsigned c1 = vfh_ncoins;
  long b = (long)vfh_coinlog[c0 + 1];
  bool sent = false; H_TRY(sent = ot->Send_interactive_OneOutOfN_optimized(M, first, reply));   // coins s_0, r_0, s_1, r_1, ...
  vf_assert(vfh_exc == 0 && sent, "optimised sender answers every honest first move");
  std::string rep = reply.str(); std::stringstream reply2(rep);
  vfh_replay_coins(c0, c1);
  bool ok = false; H_TRY(ok = ot->Choose_interactive_OneOutOfN_optimized(sigma, H_N, got, reply, sink));
  vf_assert(vfh_exc == 0 && ok, "chooser accepts the honest reply");
  vf_assert(mpz_cmp(got, M[sigma]) == 0, "optimised 1-of-N: chooser outputs the message at the chosen index");
#ifdef H_OTHER
  // any other ciphertext i under the chooser's secret b: key_i / w_i^b = g^(s_i * (i - sigma)), so it opens exactly when s_i == 0 (N <= q)
  for (unsigned i = 0; i < H_N; ++i) {
    Z w, e; reply2 >> (mpz_ptr)w >> (mpz_ptr)e;
    if (i == sigma) continue;
    long s_i = (long)vfh_coinlog[c1 + 2 * i];
    Z t, inv; mpz_powm_ui(t, w, (unsigned long)b, ot->p); mpz_invert(inv, t, ot->p); mpz_mul(t, e, inv); mpz_mod(t, t, ot->p);
    vf_assert((mpz_cmp(t, M[i]) == 0) == (s_i == 0), "a ciphertext not chosen opens under the chooser's secret exactly when the sender's s_i vanishes");
  }
#endif
  (void)b; (void)reply2;
  H_END();
}
H_ENTRY(h_ot_nopt_firstmove) {
  NaorPinkasEOTP *ot = mk();
  std::vector<mpz_ptr> M;
  for (unsigned i = 0; i < H_N; ++i) { mpz_ptr m = new mpz_t(); mpz_init_set_ui(m, 1); M.push_back(m); }
  long v[3]; std::stringstream first, reply;
  for (unsigned i = 0; i < 3; ++i) { v[i] = vfh_range(-1, H_P + 2); vfh_put(first, v[i]); }
  bool sent = false; H_TRY(sent = ot->Send_interactive_OneOutOfN_optimized(M, first, reply));
  vf_assert(vfh_exc == 0, "sender does not throw on an arbitrary first move");
  vf_assert(sent == (member(v[0]) && member(v[1]) && member(v[2])), "optimised sender answers exactly the first moves made of group elements");
  H_END();
}
