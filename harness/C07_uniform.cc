// C07: uniformity as an exact counting argument (RNG bytes assumed uniform and independent)
#include "vfh_gmp.hh"
#include <gcrypt.h>
#include "mpz_srandom.hh"
#include <climits>

// ---- stub for the raw 64-bit source: returns the harness-chosen draws in order
static unsigned long h_draw[4]; static unsigned h_ndraw = 0, h_used = 0;
extern "C" unsigned long vfstub_grandom_ui(enum gcry_random_level) {
  unsigned long v = h_used < h_ndraw ? h_draw[h_used] : 0UL;   // beyond the scripted draws: 0, which every correct bound accepts
  ++h_used;
  vf_assume(h_used <= 3);
  return v;
}
static unsigned long call_mod(unsigned which, unsigned long m) {
  if (which == 0) return tmcg_mpz_ssrandom_mod(m);
  if (which == 1) return tmcg_mpz_srandom_mod(m);
  return tmcg_mpz_wrandom_mod(m);
}
// acc(d, m): the bounded sampler accepts raw draw d for modulus m (observed: it consumes exactly one draw)
static bool accepted(unsigned which, unsigned long m, unsigned long d, unsigned long &out) {
  h_draw[0] = d; h_ndraw = 1; h_used = 0;
  out = call_mod(which, m);
  return h_used == 1;
}

// The accepted set A_m must be a union of complete residue blocks [k*m, k*m + m - 1] inside [0, 2^64): then every residue
// has exactly |A_m|/m preimages, i.e. the output is exactly uniform. Checked by self-composition over two draws d, d2:
//   acc(d)  =>  block top of d does not exceed 2^64 - 1            (no partial last block)
//   acc(d) and d2 <= block top of d  =>  acc(d2)                    (threshold set, complete blocks)
// plus: the value returned is the accepted draw mod m, in [0, m), and at least half of all draws are accepted.
H_ENTRY(h_nomodbias) {
  unsigned long m = vf_nondet_u64(), d = vf_nondet_u64(), d2 = vf_nondet_u64();
  unsigned which = vf_nondet_u8() % 3;
  vf_assume(m >= 2);
  unsigned long o1 = 0, o2 = 0;
  bool a1 = accepted(which, m, d, o1);
  bool a2 = accepted(which, m, d2, o2);
  unsigned __int128 top = (unsigned __int128)d - (d % m) + (m - 1);
  if (a1) {
    vf_assert(top <= (unsigned __int128)ULONG_MAX, "an accepted draw lies in a complete residue block (no modulo bias)");
    vf_assert(o1 == d % m, "result is the accepted draw reduced modulo m");
    if ((unsigned __int128)d2 <= top) vf_assert(a2, "every draw up to the block top of an accepted draw is accepted");
  }
  vf_assert(o1 < m && o2 < m, "result below the modulus");
  // efficiency / non-emptiness: everything below 2^64 - m + 1 rounded down to a block boundary is accepted; in particular
  // draws below 2^63 are always accepted when m <= 2^63, so the loop terminates quickly
  if ((unsigned __int128)d + m <= ((unsigned __int128)1 << 64) - (((unsigned __int128)1 << 64) % m)) vf_assert(a1, "no complete block is rejected");
  H_END();
}
// directed form of block completeness (one draw only): the top element of an accepted draw's block is itself accepted
H_ENTRY(h_nomodbias_top) {
  unsigned long m = vf_nondet_u64(), d = vf_nondet_u64();
  unsigned which = vf_nondet_u8() % 3;
  vf_assume(m >= 2);
  unsigned long o1 = 0, o3 = 0;
  bool a1 = accepted(which, m, d, o1);
  unsigned __int128 top = (unsigned __int128)d - (d % m) + (m - 1);
  vf_assume(a1 && top <= (unsigned __int128)ULONG_MAX);
  vf_assert(accepted(which, m, (unsigned long)top, o3), "the top element of an accepted draw's block is accepted");
  vf_assert(o3 == m - 1, "the block top maps to residue m-1");
  H_END();
}
H_ENTRY(h_nomodbias_bad) {
  unsigned long m = vf_nondet_u8() & 1;
  unsigned which = vf_nondet_u8() % 3;
  h_ndraw = 0; h_used = 0;
  H_TRY(call_mod(which, m));
  vf_assert(vfh_exc == 1, "modulus 0 and 1 are refused with a standard exception");
  H_END();
}
