// vfh_proto.hh - shared scaffolding of the protocol harnesses:
//  * mpz stream operators as binary tokens (the real base-62 text operators are the subject of C11/C12, not of protocols)
//  * the hash functions tmcg_mpz_shash* as a memoised nondeterministic function (random-oracle idealisation restricted to
//    the calls actually made; optionally collision-free)
//  * coin stubs (vfh_gmp.hh)
#ifndef VFH_PROTO_HH
#define VFH_PROTO_HH
#include "vfh_gmp.hh"
#include <iostream>
#include <sstream>
#include <vector>
#include <utility>
#include <cstdarg>
#include <stdexcept>

struct Z { mpz_t v; Z() { mpz_init(v); } Z(long x) { mpz_init_set_si(v, x); } ~Z() { mpz_clear(v); } operator mpz_ptr() { return v; } operator mpz_srcptr() const { return v; }
           long get() const { return mpz_sgn(v) * (long)mpz_get_ui(v); } private: Z(const Z&); Z& operator=(const Z&); };
static inline long vfh_val(mpz_srcptr a) { return mpz_sgn(a) * (long)mpz_get_ui(a); }

// ---------------------------------------------------------------- binary-token stream operators
// token = 0x01, sign (0|1), H_TOKBYTES bytes little-endian magnitude; the library writes std::endl after every value and the real
// operator>> consumes the rest of the line, so does this one.
#ifndef H_TOKBYTES
#define H_TOKBYTES 2          // magnitude bytes per token: values up to 2^16 (larger ones are a model bound)
#endif
extern "C" void __vf_model_bound(void);
std::ostream& vfstub_mpz_out(std::ostream& out, mpz_srcptr v) {
  char t[2 + H_TOKBYTES]; unsigned long m = mpz_get_ui(v);
  if (H_TOKBYTES < 8 && (m >> (8 * H_TOKBYTES)) != 0) __vf_model_bound();
  t[0] = 1; t[1] = (char)(mpz_sgn(v) < 0 ? 1 : 0);
  for (int i = 0; i < H_TOKBYTES; ++i) t[2 + i] = (char)((m >> (8 * i)) & 0xFF);
  out.write(t, 2 + H_TOKBYTES);
  return out;
}
std::istream& vfstub_mpz_in(std::istream& in, mpz_ptr v) {
  char t[2 + H_TOKBYTES]; in.read(t, 2 + H_TOKBYTES);
  bool ok = in.good() && t[0] == 1 && (t[1] == 0 || t[1] == 1);
  if (ok) {
    unsigned long m = 0; for (int i = 0; i < H_TOKBYTES; ++i) m |= ((unsigned long)(unsigned char)t[2 + i]) << (8 * i);
    mpz_set_ui(v, m); if (t[1]) mpz_neg(v, v);
    // rest of the line
    int c = in.get();
    if (c != '\n' && c != -1) ok = false;
    if (c == -1) in.clear(std::istream::eofbit);
  }
  if (!ok) { mpz_set_ui(v, 0UL); in.setstate(std::istream::failbit); throw std::runtime_error("operator >>: mpz_set_str failed"); }
  return in;
}
static inline void vfh_put(std::ostream& out, long x) { Z t(x); vfstub_mpz_out(out, t); out << std::endl; }

// ---------------------------------------------------------------- hash model
#ifndef H_DBITS
#define H_DBITS 4            // digest width in bits (values 0 .. 2^H_DBITS - 1)
#endif
#ifndef H_HMAX
#define H_HMAX 6
#endif
#define H_HARGS 20
// flat arrays only (CBMC 6.11 mis-handles a store through &tab[e].v[0] into an array of structs with an inner array when e
// is not a literal: the stored value reads back as 0 - seen as a spurious counterexample that did not replay natively)
// Fiat-Shamir unpredictability: while vfh_forbid_on is set, the digest of a not yet queried input differs from vfh_forbid
// (the challenge value the adversary already committed to in the edited transcript); probability 2^-|digest| otherwise.
static bool vfh_forbid_on = false; static long vfh_forbid = 0;
static unsigned vfh_hcnt[H_HMAX]; static long vfh_hkey[H_HMAX * H_HARGS]; static unsigned long vfh_hout[H_HMAX]; static unsigned vfh_hn = 0;
static void vfh_digest(mpz_ptr r, unsigned n, const long *vals) {
  vf_assume(n <= H_HARGS);
  for (unsigned e = 0; e < H_HMAX; ++e) {       // literal bound: the engine unrolls exactly H_HMAX times
    if (e >= vfh_hn) break;
    if (vfh_hcnt[e] != n) continue;
    bool same = true;
    for (unsigned i = 0; i < n; ++i) if (vfh_hkey[e * H_HARGS + i] != vals[i]) same = false;
    if (same) { mpz_set_ui(r, vfh_hout[e]); return; }
  }
  vf_assume(vfh_hn < H_HMAX);
  unsigned long o = vf_nondet_below(1UL << H_DBITS);
  if (vfh_forbid_on) vf_assume((long)o != vfh_forbid);
#ifdef H_DIGEST_UNIT
  vf_assume(o % H_Q != 0);      // stated exceptional set: challenges that vanish modulo q
#endif
#ifdef H_COLLISION_FREE
  for (unsigned e = 0; e < H_HMAX; ++e) { if (e >= vfh_hn) break; vf_assume(vfh_hout[e] != o); }
#endif
  unsigned slot = vfh_hn;
  vfh_hcnt[slot] = n; for (unsigned i = 0; i < n; ++i) vfh_hkey[slot * H_HARGS + i] = vals[i];
  vfh_hout[slot] = o; vfh_hn = slot + 1;
  mpz_set_ui(r, o);
}
size_t vfstub_shash_len() { return (H_DBITS + 7) / 8; }
// the string/tagged variants get a distinct leading marker value so that different framings never coincide
void vfstub_shash_va(mpz_ptr r, size_t n, ...) {
#ifdef H_FP_IDENTITY
  // fingerprints (one-argument hashes, used as map keys) by a fixed injective function: keeps map shapes concrete
  if (n == 1) { va_list ap0; va_start(ap0, n); mpz_srcptr a0 = va_arg(ap0, mpz_srcptr); va_end(ap0); mpz_set_ui(r, mpz_get_ui(a0) & ((1UL << H_DBITS) - 1)); return; }
#endif
  long vals[H_HARGS]; unsigned k = 0; vals[k++] = -1000 - (long)n;
  va_list ap; va_start(ap, n);
  for (size_t i = 0; i < n && k < H_HARGS; ++i) { mpz_srcptr a = va_arg(ap, mpz_srcptr); vals[k++] = vfh_val(a); }
  va_end(ap);
  vfh_digest(r, k, vals);
}
static inline void vfh_push_vec(long *vals, unsigned &k, const std::vector<mpz_ptr>& v) {
  if (k < H_HARGS) vals[k++] = -2000 - (long)v.size();
  for (size_t i = 0; i < v.size() && k < H_HARGS; ++i) vals[k++] = vfh_val(v[i]);
}
static inline void vfh_push_pvec(long *vals, unsigned &k, const std::vector<std::pair<mpz_ptr, mpz_ptr> >& v) {
  if (k < H_HARGS) vals[k++] = -3000 - (long)v.size();
  for (size_t i = 0; i < v.size() && k + 1 < H_HARGS; ++i) { vals[k++] = vfh_val(v[i].first); vals[k++] = vfh_val(v[i].second); }
}
#define VFH_VA_TAIL() do { va_list ap; va_start(ap, n); for (size_t i = 0; i < n && k < H_HARGS; ++i) { mpz_srcptr a = va_arg(ap, mpz_srcptr); vals[k++] = vfh_val(a); } va_end(ap); } while (0)
void vfstub_shash_1vec(mpz_ptr r, const std::vector<mpz_ptr>& v, size_t n, ...) {
  long vals[H_HARGS]; unsigned k = 0; vals[k++] = -1100 - (long)n; vfh_push_vec(vals, k, v); VFH_VA_TAIL(); vfh_digest(r, k, vals);
}
void vfstub_shash_2vec(mpz_ptr r, const std::vector<mpz_ptr>& v, const std::vector<mpz_ptr>& w, size_t n, ...) {
  long vals[H_HARGS]; unsigned k = 0; vals[k++] = -1200 - (long)n; vfh_push_vec(vals, k, v); vfh_push_vec(vals, k, w); VFH_VA_TAIL(); vfh_digest(r, k, vals);
}
void vfstub_shash_4vec(mpz_ptr r, const std::vector<mpz_ptr>& v, const std::vector<mpz_ptr>& w, const std::vector<mpz_ptr>& x, const std::vector<mpz_ptr>& y, size_t n, ...) {
  long vals[H_HARGS]; unsigned k = 0; vals[k++] = -1400 - (long)n; vfh_push_vec(vals, k, v); vfh_push_vec(vals, k, w); vfh_push_vec(vals, k, x); vfh_push_vec(vals, k, y); VFH_VA_TAIL(); vfh_digest(r, k, vals);
}
void vfstub_shash_2pairvec(mpz_ptr r, const std::vector<std::pair<mpz_ptr, mpz_ptr> >& vp, const std::vector<std::pair<mpz_ptr, mpz_ptr> >& wp, size_t n, ...) {
  long vals[H_HARGS]; unsigned k = 0; vals[k++] = -1500 - (long)n; vfh_push_pvec(vals, k, vp); vfh_push_pvec(vals, k, wp); VFH_VA_TAIL(); vfh_digest(r, k, vals);
}
void vfstub_shash_2pairvec2vec(mpz_ptr r, const std::vector<std::pair<mpz_ptr, mpz_ptr> >& vp, const std::vector<std::pair<mpz_ptr, mpz_ptr> >& wp,
                               const std::vector<mpz_ptr>& v, const std::vector<mpz_ptr>& w, size_t n, ...) {
  long vals[H_HARGS]; unsigned k = 0; vals[k++] = -1600 - (long)n; vfh_push_pvec(vals, k, vp); vfh_push_pvec(vals, k, wp); vfh_push_vec(vals, k, v); vfh_push_vec(vals, k, w); VFH_VA_TAIL(); vfh_digest(r, k, vals);
}
void vfstub_shash_4pairvec2vec(mpz_ptr r, const std::vector<std::pair<mpz_ptr, mpz_ptr> >& vp, const std::vector<std::pair<mpz_ptr, mpz_ptr> >& wp,
                               const std::vector<std::pair<mpz_ptr, mpz_ptr> >& xp, const std::vector<std::pair<mpz_ptr, mpz_ptr> >& yp,
                               const std::vector<mpz_ptr>& v, const std::vector<mpz_ptr>& w, size_t n, ...) {
  long vals[H_HARGS]; unsigned k = 0; vals[k++] = -1700 - (long)n; vfh_push_pvec(vals, k, vp); vfh_push_pvec(vals, k, wp); vfh_push_pvec(vals, k, xp); vfh_push_pvec(vals, k, yp);
  vfh_push_vec(vals, k, v); vfh_push_vec(vals, k, w); VFH_VA_TAIL(); vfh_digest(r, k, vals);
}
// hash of a text (used for canonical generators and fingerprints): digest of (length, byte sum) would lose injectivity;
// texts here are short, so the whole text is folded byte by byte into the key (up to H_HARGS*8 bytes)
void vfstub_shash_str(mpz_ptr r, const std::string& s) {
  long vals[H_HARGS]; unsigned k = 0; vals[k++] = -1900 - (long)s.size();
  long acc = 0; unsigned cnt = 0;
  for (size_t i = 0; i < s.size() && k < H_HARGS; ++i) { acc = (acc << 8) | (unsigned char)s[i]; if (++cnt == 7) { vals[k++] = acc; acc = 0; cnt = 0; } }
  if (cnt && k < H_HARGS) vals[k++] = acc;
  vfh_digest(r, k, vals);
}
#endif
