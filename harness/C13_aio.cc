// C13: point-to-point channels (aiounicast_select / aiounicast_nonblock) over the in-memory wire of models/aio_model.c
//  two parties (n = 2): party 0 = sender A, party 1 = receiver B; pipe 2*from+to carries the bytes from -> to
//  the transport fragments (short reads), coalesces (a read delivers everything pending), delays (select says "not ready")
#include "vfh_gmp.hh"
#ifdef H_NONBLOCK
#include "aiounicast_nonblock.hh"
typedef aiounicast_nonblock AIO;
#else
#include "aiounicast_select.hh"
typedef aiounicast_select AIO;
#endif
#include <vector>
#include <string>
struct Z { mpz_t v; Z() { mpz_init(v); } Z(long x) { mpz_init_set_si(v, x); } ~Z() { mpz_clear(v); } operator mpz_ptr() { return v; } operator mpz_srcptr() const { return v; }
           long get() const { return mpz_sgn(v) * (long)mpz_get_ui(v); } private: Z(const Z&); Z& operator=(const Z&); };
// ---- environment model (models/aio_model.c)
#ifndef VF_AIO_CAP
#define VF_AIO_CAP 40
#endif
#ifndef VF_AIO_MACLEN
#define VF_AIO_MACLEN 2
#endif
#ifndef VF_AIO_BLKLEN
#define VF_AIO_BLKLEN 2
#endif
#ifndef VF_AIO_KSMAX
#define VF_AIO_KSMAX 8
#endif
extern "C" {
  extern unsigned char vf_aio_data[]; extern unsigned vf_aio_w[], vf_aio_r[]; extern unsigned vf_aio_eof[];
  extern unsigned vf_aio_read_frag, vf_aio_write_frag, vf_aio_eagain, vf_aio_delay;
  extern unsigned vf_aio_nread, vf_aio_nwrite, vf_aio_nselect, vf_aio_lastread;
  extern unsigned vf_aio_mac_n, vf_aio_mac_nverify, vf_aio_mac_nverify_ok;
  extern unsigned vf_aio_ks_n, vf_aio_ks_reuse, vf_aio_nsetiv; extern unsigned char vf_aio_ks[]; extern unsigned vf_aio_ks_used[];
}
// the random scheduler is not used by the harnesses; its sampler (mpz_srandom.cc) is replaced by an arbitrary value in range
unsigned long int tmcg_mpz_wrandom_mod(const unsigned long int modulo) { return vf_nondet_below(modulo); }

#define P01 1            // pipe A -> B
#define P10 2            // pipe B -> A
static unsigned char *wire(int p) { return vf_aio_data + p * VF_AIO_CAP; }
static unsigned pending(int p) { return vf_aio_w[p] - vf_aio_r[p]; }
#ifndef H_AUTH
#define H_AUTH 0
#endif
#ifndef H_ENC
#define H_ENC 0
#endif
#ifndef H_CHUNKED
#define H_CHUNKED 0
#endif
static AIO *mk(size_t j) {
  std::vector<int> fin, fout; std::vector<std::string> keys;
  for (size_t i = 0; i < 2; ++i) { fin.push_back((int)(2 * i + j)); fout.push_back((int)(2 * j + i)); }
  // key_in[i] of party j = password shared by i and j: "k" on the link 0-1, a private one on the self link
  keys.push_back(j == 0 ? "a" : "k"); keys.push_back(j == 0 ? "k" : "b");
  return new AIO(2, j, fin, fout, keys, aiounicast::aio_scheduler_direct, 0, H_AUTH != 0, H_ENC != 0, H_CHUNKED != 0);
}
// values to send: concrete (slice) or symbolic in [0, H_VMAX)
#ifndef H_VMAX
#define H_VMAX 200
#endif
static long pick(long fixed) {
#ifdef H_SYMVAL
  (void)fixed; return vfh_range(0, H_VMAX);
#else
  return fixed;
#endif
}
#ifndef H_V1
#define H_V1 0
#endif
#ifndef H_V2
#define H_V2 61
#endif
#ifndef H_V3
#define H_V3 199
#endif
// number of Receive(timeout 0) calls the receiver gets (each performs up to n = 2 rounds: parse what is buffered, else read)
#ifndef H_CALLS
#define H_CALLS 6
#endif
#ifndef H_FRAG
#define H_FRAG 2
#endif
struct Got { long v[4]; unsigned n; unsigned fail; };
// drain: call Receive on the link from party 0 until `calls` calls were made; collects what was delivered
static void drain(AIO *B, Got &g, unsigned calls) {
  for (unsigned k = 0; k < calls; ++k) {
    Z r(-7); size_t from = 0;
    bool ok = B->Receive(r, from, aiounicast::aio_scheduler_direct, 0);
    if (ok) { if (g.n < 4) g.v[g.n] = r.get(); ++g.n; vf_assert(from == 0, "delivered message is attributed to the sending party"); }
    else ++g.fail;
  }
}

// ---------------------------------------------------------------- 2. plain mode (and any mode, honest wire): fragmentation
// Send NMSG integers, then receive through a transport whose reads are short at most H_FRAG times (arbitrary split points),
// optionally late at most H_DELAY times: every integer exactly once, unchanged, in order; afterwards nothing more.
#ifndef H_NMSG
#define H_NMSG 2
#endif
#ifndef H_DELAY
#define H_DELAY 0
#endif
H_ENTRY(h_fragment) {
  AIO *A = mk(0), *B = mk(1);
  long v[3] = { pick(H_V1), pick(H_V2), pick(H_V3) };
  for (unsigned i = 0; i < H_NMSG; ++i) { Z m(v[i]); bool s = A->Send(m, 1, 1); vf_assert(s, "integer accepted for sending"); }
  vf_aio_read_frag = H_FRAG; vf_aio_delay = H_DELAY;
  Got g = { { 0, 0, 0, 0 }, 0, 0 };
  drain(B, g, H_CALLS);
  vf_assert(g.n == H_NMSG, "every integer sent is delivered exactly once");
  for (unsigned i = 0; i < H_NMSG; ++i) vf_assert(g.v[i] == v[i], "delivered unchanged and in sending order");
  vf_assert(pending(P01) == 0 && B->buf_ptr[0] == 0, "wire and reassembly buffer are empty afterwards");
  Got h = { { 0, 0, 0, 0 }, 0, 0 };
  drain(B, h, 1);
  vf_assert(h.n == 0, "a further Receive delivers nothing");
  H_END();
}
H_ENTRY(h_probe) {
  AIO *A = mk(0);
  Z m(5); bool s = A->AIO::Send(m, 1, 1); vf_assert(s, "integer accepted for sending");
  vf_assert(vf_aio_w[P01] == 2, "two bytes on the wire");
  H_END();
}
