// C13: point-to-point channels (aiounicast_select / aiounicast_nonblock) over the in-memory wire of models/aio_model.c
//  two parties (n = 2): party 0 = sender A, party 1 = receiver B; pipe 2*from+to carries the bytes from -> to
//  the transport fragments (short reads), coalesces (a read delivers everything pending), delays (select says "not ready")
#include "vfh_gmp.hh"
#ifdef H_NONBLOCK
#include "aiounicast_nonblock.hh"
typedef aiounicast_nonblock AIO;
#else
#include "aiounicast_select.hh"
typedef aiounicast_select AIO;
#endif
#include <vector>
#include <unistd.h>
#include <string>
struct Z { mpz_t v; Z() { mpz_init(v); } Z(long x) { mpz_init_set_si(v, x); } ~Z() { mpz_clear(v); } operator mpz_ptr() { return v; } operator mpz_srcptr() const { return v; }
           long get() const { return mpz_sgn(v) * (long)mpz_get_ui(v); } private: Z(const Z&); Z& operator=(const Z&); };
// ---- environment model (models/aio_model.c)
#ifndef VF_AIO_CAP
#define VF_AIO_CAP 40
#endif
#ifndef VF_AIO_MACLEN
#define VF_AIO_MACLEN 2
#endif
#ifndef VF_AIO_BLKLEN
#define VF_AIO_BLKLEN 2
#endif
#ifndef VF_AIO_KSMAX
#define VF_AIO_KSMAX 8
#endif
extern "C" {
  extern unsigned char vf_aio_data[]; extern unsigned vf_aio_w[], vf_aio_r[]; extern unsigned vf_aio_eof[];
  extern unsigned vf_aio_read_frag, vf_aio_write_frag, vf_aio_eagain, vf_aio_delay;
  extern unsigned vf_aio_nread, vf_aio_nwrite, vf_aio_nselect, vf_aio_lastread;
  extern unsigned vf_aio_plan[], vf_aio_plan_n, vf_aio_plan_i;
  extern unsigned vf_aio_mac_n, vf_aio_mac_nverify, vf_aio_mac_nverify_ok;
  extern unsigned vf_aio_ks_n, vf_aio_ks_reuse, vf_aio_nsetiv; extern unsigned char vf_aio_ks[]; extern unsigned vf_aio_ks_used[];
}
// the random scheduler is not used by the harnesses; its sampler (mpz_srandom.cc) is replaced by an arbitrary value in range
unsigned long int tmcg_mpz_wrandom_mod(const unsigned long int modulo) { return vf_nondet_below(modulo); }

#define P01 1            // pipe A -> B
#define P10 2            // pipe B -> A
static unsigned char *wire(int p) { return vf_aio_data + p * VF_AIO_CAP; }
static unsigned pending(int p) { return vf_aio_w[p] - vf_aio_r[p]; }
#ifndef H_AUTH
#define H_AUTH 0
#endif
#ifndef H_ENC
#define H_ENC 0
#endif
#ifndef H_CHUNKED
#define H_CHUNKED 0
#endif
static AIO *mk(size_t j) {
  std::vector<int> fin, fout; std::vector<std::string> keys;
  for (size_t i = 0; i < 2; ++i) { fin.push_back((int)(2 * i + j)); fout.push_back((int)(2 * j + i)); }
  // key_in[i] of party j = password shared by i and j: "k" on the link 0-1, a private one on the self link
  keys.push_back(j == 0 ? "a" : "k"); keys.push_back(j == 0 ? "k" : "b");
  return new AIO(2, j, fin, fout, keys, aiounicast::aio_scheduler_direct, 0, H_AUTH != 0, H_ENC != 0, H_CHUNKED != 0);
}
// values to send: concrete (slice) or symbolic in [0, H_VMAX)
#ifndef H_VMAX
#define H_VMAX 200
#endif
static long pick(long fixed) {
#ifdef H_SYMVAL
  (void)fixed; return vfh_range(0, H_VMAX);
#else
  return fixed;
#endif
}
#ifndef H_V1
#define H_V1 0
#endif
#ifndef H_V2
#define H_V2 61
#endif
#ifndef H_V3
#define H_V3 199
#endif
// number of Receive(timeout 0) calls the receiver gets (each performs up to n = 2 rounds: parse what is buffered, else read)
#ifndef H_CALLS
#define H_CALLS 6
#endif
struct Got { long v[4]; unsigned n; unsigned fail; };
// drain: call Receive on the link from party 0 until `calls` calls were made; collects what was delivered
static void drain(AIO *B, Got &g, unsigned calls) {
  for (unsigned k = 0; k < calls; ++k) {
    Z r(-7); size_t from = 0;
    bool ok = B->Receive(r, from, aiounicast::aio_scheduler_direct, 0);
    if (ok) { if (g.n < 4) g.v[g.n] = r.get(); ++g.n; vf_assert(from == 0, "delivered message is attributed to the sending party"); }
    else ++g.fail;
  }
}

// ---------------------------------------------------------------- fragmentation, every mode, honest wire
// Send H_NMSG integers, then receive through a transport whose first reads deliver H_S1, H_S2 bytes (0 = everything pending; one
// query per split point, enumerated by slices) and everything pending afterwards; optionally H_FRAG further short reads with
// symbolic split points and H_DELAY late select() answers: every integer exactly once, unchanged, in order; afterwards nothing.
#ifndef H_NMSG
#define H_NMSG 2
#endif
#ifndef H_DELAY
#define H_DELAY 0
#endif
#ifndef H_S1
#define H_S1 0
#endif
#ifndef H_S2
#define H_S2 0
#endif
#ifndef H_FRAG
#define H_FRAG 0
#endif
static void plan() { vf_aio_plan[0] = H_S1; vf_aio_plan[1] = H_S2; vf_aio_plan_n = 2; vf_aio_plan_i = 0; vf_aio_read_frag = H_FRAG; vf_aio_delay = H_DELAY; }
H_ENTRY(h_fragment) {
  AIO *A = mk(0), *B = mk(1);
  long v[3] = { pick(H_V1), pick(H_V2), pick(H_V3) };
  for (unsigned i = 0; i < H_NMSG; ++i) { Z m(v[i]); bool s = A->AIO::Send(m, 1, 1); vf_assert(s, "integer accepted for sending"); }
#if H_ENC
  vf_assert(vf_aio_ks_reuse == 0, "no keystream position is used for two messages (equal integers give different wire bytes under an ideal cipher)");
  vf_assert(A->iv_flag_out[1] && vf_aio_w[P01] >= VF_AIO_BLKLEN, "the IV went out once, ahead of the first message");
#endif
  plan();
  Got g = { { 0, 0, 0, 0 }, 0, 0 };
  drain(B, g, H_CALLS);
  vf_assert(g.n == H_NMSG, "every integer sent is delivered exactly once");
  for (unsigned i = 0; i < H_NMSG; ++i) vf_assert(g.v[i] == v[i], "delivered unchanged and in sending order");
  vf_assert(pending(P01) == 0 && B->buf_ptr[0] == 0, "wire and reassembly buffer are empty afterwards");
  Got h = { { 0, 0, 0, 0 }, 0, 0 };
  drain(B, h, 1);
  vf_assert(h.n == 0, "a further Receive delivers nothing");
  H_END();
}

// ---------------------------------------------------------------- authentication: the adversary edits the wire
// two integers are sent (frames F1 = [0,b1), F2 = [b1,b2) on the wire), then the bytes in flight are edited (one query per edit):
//  H_EDIT 1: byte H_POS ^= H_XOR    3: F1 removed    4: F1 replayed (F1 F1 F2)    5: F1 and F2 swapped    6: F2 replayed first (F2 F1 F2)
// what is delivered must be a prefix of what was sent (nothing modified, inserted, replayed or out of order), and the edited
// stream never yields both messages.
#ifndef H_EDIT
#define H_EDIT 1
#endif
#ifndef H_POS
#define H_POS 0
#endif
#ifndef H_XOR
#define H_XOR 1
#endif
H_ENTRY(h_wire_edit) {
  AIO *A = mk(0), *B = mk(1);
  long v[2] = { pick(H_V1), pick(H_V2) };
  unsigned b0 = vf_aio_w[P01];
  { Z m(v[0]); bool s = A->AIO::Send(m, 1, 1); vf_assert(s, "first integer accepted for sending"); }
  unsigned b1 = vf_aio_w[P01];
  { Z m(v[1]); bool s = A->AIO::Send(m, 1, 1); vf_assert(s, "second integer accepted for sending"); }
  unsigned b2 = vf_aio_w[P01];
  unsigned char *w = wire(P01), f1[16], f2[16]; unsigned l1 = b1 - b0, l2 = b2 - b1, o = b0;
  vf_assume(l1 <= 16 && l2 <= 16 && b2 + 16 <= VF_AIO_CAP);
  for (unsigned i = 0; i < l1; ++i) f1[i] = w[b0 + i];
  for (unsigned i = 0; i < l2; ++i) f2[i] = w[b1 + i];
  if (H_EDIT == 1) { vf_assume(H_POS < b2); w[H_POS] ^= H_XOR; o = b2; }
  if (H_EDIT == 3) { for (unsigned i = 0; i < l2; ++i) w[o++] = f2[i]; }
  if (H_EDIT == 4) { for (unsigned i = 0; i < l1; ++i) w[o++] = f1[i]; for (unsigned i = 0; i < l1; ++i) w[o++] = f1[i]; for (unsigned i = 0; i < l2; ++i) w[o++] = f2[i]; }
  if (H_EDIT == 5) { for (unsigned i = 0; i < l2; ++i) w[o++] = f2[i]; for (unsigned i = 0; i < l1; ++i) w[o++] = f1[i]; }
  if (H_EDIT == 6) { for (unsigned i = 0; i < l2; ++i) w[o++] = f2[i]; for (unsigned i = 0; i < l1; ++i) w[o++] = f1[i]; for (unsigned i = 0; i < l2; ++i) w[o++] = f2[i]; }
  vf_aio_w[P01] = o;
  plan();
  Got g = { { 0, 0, 0, 0 }, 0, 0 };
  drain(B, g, H_CALLS);
  vf_assert(g.n <= 2, "never more messages delivered than sent");
  for (unsigned i = 0; i < 2; ++i) if (i < g.n) vf_assert(g.v[i] == v[i], "what is delivered is a prefix of what was sent: nothing modified, inserted, replayed or out of order");
  if (H_EDIT == 1 && H_POS < b1) vf_assert(g.n == 0, "a modified first message is not delivered, nor anything after it");
  if (H_EDIT == 1 && H_POS >= b1) vf_assert(g.n == 1, "a modified second message is not delivered (the first one is)");
  if (H_EDIT == 3) vf_assert(g.n == 0, "after a removed message nothing is delivered");
  if (H_EDIT == 4) vf_assert(g.n == 1, "a replayed message is delivered once; the link stops at the replay");
  if (H_EDIT == 5) vf_assert(g.n <= 1, "swapped messages: the later one is never delivered first");
  if (H_EDIT == 6) vf_assert(g.n == 2, "a frame of the future in front is skipped before the first message; then both arrive in order");
  H_END();
}
