// C02: a received stack secret whose index component is not a bijection on {0..n-1} is refused on import.
// The text is concrete except for ONE index digit (the last one), which is symbolic over 0..9; the preceding digits are
// enumerated by slices (every symbolic character multiplies the cost of the text parser, see DESIGN.md A.9).
#include "vfh_gmp.hh"
#include "TMCG_StackSecret.hh"
#include "VTMF_CardSecret.hh"
#include <string>
#ifndef H_N
#define H_N 2
#endif
#ifndef H_PREFIX
#define H_PREFIX 0        /* decimal number whose digits are the first n-1 indices, e.g. 10 for (1,0,x) */
#endif
H_ENTRY(h_sts_import) {
  unsigned idx[H_N];
  { unsigned pre = H_PREFIX; for (int i = (int)H_N - 2; i >= 0; --i) { idx[i] = pre % 10; pre /= 10; } }
  idx[H_N - 1] = (unsigned)vf_nondet_below(10);
  std::string s = "sts^";
  s += (char)('0' + H_N); s += '^';
  for (unsigned i = 0; i < H_N; ++i) { s += (char)('0' + idx[i]); s += "^crs|5|^"; }
  TMCG_StackSecret<VTMF_CardSecret> ss;
  bool ok = false;
  H_TRY(ok = ss.import(s));
  vf_assert(vfh_exc == 0, "import does not throw");
  bool bij = true;
  for (unsigned i = 0; i < H_N; ++i) { if (idx[i] >= H_N) bij = false; for (unsigned j = 0; j < i; ++j) if (idx[i] == idx[j]) bij = false; }
  vf_assert(ok == bij, "import accepts exactly the index vectors that are bijections on 0..n-1");
  if (ok) { vf_assert(ss.size() == H_N, "imported size"); for (unsigned i = 0; i < H_N; ++i) vf_assert(ss[i].first == idx[i], "imported indices in order"); }
  H_END();
}
