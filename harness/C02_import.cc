// C02: a received stack secret whose index component is not a bijection on {0..n-1} is refused on import
#include "vfh_gmp.hh"
#include "TMCG_StackSecret.hh"
#include "VTMF_CardSecret.hh"
#include <string>
#ifndef H_N
#define H_N 3
#endif
H_ENTRY(h_sts_import) {
  unsigned idx[H_N];
  std::string s = "sts^";
  s += (char)('0' + H_N); s += '^';
  for (unsigned i = 0; i < H_N; ++i) {
    idx[i] = (unsigned)vf_nondet_below(10);
    s += (char)('0' + idx[i]); s += "^crs|5|^";
  }
  TMCG_StackSecret<VTMF_CardSecret> ss;
  bool ok = false;
  H_TRY(ok = ss.import(s));
  vf_assert(vfh_exc == 0, "import does not throw");
  bool bij = true;
  for (unsigned i = 0; i < H_N; ++i) { if (idx[i] >= H_N) bij = false; for (unsigned j = 0; j < i; ++j) if (idx[i] == idx[j]) bij = false; }
  vf_assert(ok == bij, "import accepts exactly the index vectors that are bijections on 0..n-1");
  if (ok) { vf_assert(ss.size() == H_N, "imported size"); for (unsigned i = 0; i < H_N; ++i) vf_assert(ss[i].first == idx[i], "imported indices in order"); }
  H_END();
}
