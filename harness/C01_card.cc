// C01: opening a masked card returns its type.
//  h_cs_xor   (quadratic-residue encoding): a freshly created card secret of player `index` has a bit matrix whose columns
//             XOR to zero, i.e. masking with it preserves the type, for every number of players k and every coin.
//  h_vtmf_open (discrete-log encoding): create open card of type T, mask twice, decrypt with both shares -> T;
//             with the second share missing the type is recovered only if c_1^x == 1.
#include "vfh_proto.hh"
#include "SchindelhauerTMCG.hh"
#include "mpz_spowm.hh"
#ifndef H_KPL
#define H_KPL 3
#endif
// the bit logic under test does not depend on the modulus; modulus 1 keeps all masking values concrete (r = 0 is the only
// residue and a unit), so the query is about the random bits only
#ifndef H_MOD
#define H_MOD 1UL
#endif
#ifndef H_WB
#define H_WB 2
#endif
H_ENTRY(h_cs_xor) {
  SchindelhauerTMCG *tmcg = new SchindelhauerTMCG(2, H_KPL, H_WB);
  TMCG_PublicKeyRing ring(H_KPL);
  for (unsigned k = 0; k < H_KPL; ++k) { mpz_set_ui(ring.keys[k].m, H_MOD); mpz_set_ui(ring.keys[k].y, 1UL); }
#ifdef H_IDX
  size_t index = H_IDX;                     // slice: the masking player is concrete, its random bits are symbolic
#else
  size_t index = (size_t)vf_nondet_below(H_KPL);
#endif
  TMCG_CardSecret cs(H_KPL, H_WB);
  tmcg->TMCG_CreateCardSecret(cs, ring, index);
  for (unsigned w = 0; w < H_WB; ++w) {
    unsigned x = 0;
    for (unsigned k = 0; k < H_KPL; ++k) { unsigned long b = mpz_get_ui(&cs.b[k][w]); vf_assert(b <= 1, "bits are 0 or 1"); x ^= (unsigned)(b & 1); }
    vf_assert(x == 0, "columns of a fresh card secret XOR to zero (masking preserves the card type)");
  }
  vf_assert(tmcg->TMCG_TypeOfCard(cs) == 0, "TypeOfCard of the secret's bit matrix is the neutral type 0");
  for (unsigned k = 0; k < H_KPL; ++k) for (unsigned w = 0; w < H_WB; ++w) { Z g; mpz_gcd(g, &cs.r[k][w], ring.keys[k].m); vf_assert(mpz_cmp_ui(g, 1) == 0, "masking values are units modulo the player's modulus"); }
  H_END();
}

// ---------------------------------------------------------------- discrete-log encoding, two players
#include "BarnettSmartVTMF_dlog.hh"
#ifndef H_P
#define H_P 7
#define H_Q 3
#define H_G 2
#define H_K 2
#endif
#ifndef H_TB
#define H_TB 1          /* type bits: 2^H_TB types must be distinct powers of g, i.e. 2^H_TB <= q */
#endif
static BarnettSmartVTMF_dlog *mkvtmf() {
  BarnettSmartVTMF_dlog *v = new BarnettSmartVTMF_dlog(2, 2, false, false);
  mpz_set_ui(v->p, H_P); mpz_set_ui(v->q, H_Q); mpz_set_ui(v->g, H_G); mpz_set_ui(v->k, H_K);
  tmcg_mpz_fpowm_precompute(v->fpowm_table_g, v->g, v->p, mpz_sizeinbase(v->q, 2L));
  return v;
}
H_ENTRY(h_vtmf_open) {
  BarnettSmartVTMF_dlog *A = mkvtmf(), *B = mkvtmf();
  A->KeyGenerationProtocol_GenerateKey(); B->KeyGenerationProtocol_GenerateKey();
  std::stringstream ka, kb;
  A->KeyGenerationProtocol_PublishKey(ka); B->KeyGenerationProtocol_PublishKey(kb);
  vf_assume(B->KeyGenerationProtocol_UpdateKey(ka)); vf_assume(A->KeyGenerationProtocol_UpdateKey(kb));
  A->KeyGenerationProtocol_Finalize(); B->KeyGenerationProtocol_Finalize();
  SchindelhauerTMCG *ta = new SchindelhauerTMCG(2, 2, H_TB), *tb = new SchindelhauerTMCG(2, 2, H_TB);
  size_t T = (size_t)vf_nondet_below(1UL << H_TB);
  bool tap = vf_nondet_u8() & 1;
  VTMF_Card c0, c1, c2; VTMF_CardSecret s1, s2;
  ta->TMCG_CreateOpenCard(c0, A, T);
  ta->TMCG_CreateCardSecret(s1, A); ta->TMCG_MaskCard(c0, c1, s1, A, tap);        // A masks
  tb->TMCG_CreateCardSecret(s2, B); tb->TMCG_MaskCard(c1, c2, s2, B, tap);        // B masks again
  // A opens: own share, then B's verified share
  ta->TMCG_SelfCardSecret(c2, A);
  size_t without = ta->TMCG_TypeOfCard(c2, A);
  { Z e; mpz_powm(e, c2.c_1, B->x_i, A->p);
    vf_assert(without != T || mpz_cmp_ui(e, 1) == 0, "with B's share missing the card does not open to its type (unless c_1^x_B == 1)"); }
  ta->TMCG_SelfCardSecret(c2, A);
  std::stringstream t, nothing, sink;
  tb->TMCG_ProveCardSecret(c2, B, nothing, t);
  bool ok = false; H_TRY(ok = ta->TMCG_VerifyCardSecret(c2, A, t, sink));
  vf_assert(vfh_exc == 0 && ok, "B's decryption share is accepted");
  vf_assert(ta->TMCG_TypeOfCard(c2, A) == T, "a card masked by both players opens to the type it was created with");
  H_END();
}

// ---------------------------------------------------------------- quadratic-residue encoding, two players, real arithmetic
// toy Blum moduli m_k = p_k*q_k (p,q = 3 mod 4) with a non-residue y_k of Jacobi symbol +1; card of type T created openly (or
// privately), masked by player 0 and again by player 1; every player decodes its own row with its secret key
// (TMCG_SelfCardSecret = quadratic-residuosity test by the factors); the XOR of all rows must be T.
#include "TMCG_SecretKey.hh"
#include "mpz_sqrtm.hh"
#ifndef H_QRW
#define H_QRW 1
#endif
static const unsigned long qr_p[2] = {3, 3}, qr_q[2] = {7, 11}, qr_y[2] = {5, 2};    // m = 21, 33
static TMCG_SecretKey *mksk(unsigned k) {
  TMCG_SecretKey *s = (TMCG_SecretKey*)::operator new(sizeof(TMCG_SecretKey));   // only the integer members are used
  mpz_init_set_ui(s->p, qr_p[k]); mpz_init_set_ui(s->q, qr_q[k]); mpz_init_set_ui(s->m, qr_p[k] * qr_q[k]); mpz_init_set_ui(s->y, qr_y[k]);
  return s;
}
H_ENTRY(h_qr_open) {
  SchindelhauerTMCG *tmcg = new SchindelhauerTMCG(2, 2, H_QRW);
  TMCG_PublicKeyRing ring(2);
  for (unsigned k = 0; k < 2; ++k) { mpz_set_ui(ring.keys[k].m, qr_p[k] * qr_q[k]); mpz_set_ui(ring.keys[k].y, qr_y[k]); }
  TMCG_SecretKey *sk0 = mksk(0), *sk1 = mksk(1);
  size_t T = (size_t)vf_nondet_below(1UL << H_QRW);
  bool tap = vf_nondet_u8() & 1;
  TMCG_Card c1(2, H_QRW), c2(2, H_QRW); TMCG_CardSecret s1(2, H_QRW), s2(2, H_QRW);
#ifdef H_PRIVATE
  tmcg->TMCG_CreatePrivateCard(c1, s1, ring, 0, T);                                  // created and masked by player 0 in one step
#else
  TMCG_Card c0(2, H_QRW);
  tmcg->TMCG_CreateOpenCard(c0, ring, T);
  tmcg->TMCG_CreateCardSecret(s1, ring, 0); tmcg->TMCG_MaskCard(c0, c1, s1, ring, tap);   // player 0 masks
#endif
  tmcg->TMCG_CreateCardSecret(s2, ring, 1); tmcg->TMCG_MaskCard(c1, c2, s2, ring, tap);   // player 1 masks again
  TMCG_CardSecret open(2, H_QRW);
  tmcg->TMCG_SelfCardSecret(c2, open, *sk0, 0);
  tmcg->TMCG_SelfCardSecret(c2, open, *sk1, 1);
  vf_assert(tmcg->TMCG_TypeOfCard(open) == T, "QR encoding: a card masked by both players opens to the type it was created with");
  // every component stays a unit modulo its player's modulus (otherwise the residuosity test is meaningless)
  for (unsigned k = 0; k < 2; ++k) for (unsigned w = 0; w < H_QRW; ++w) { Z g; mpz_gcd(g, &c2.z[k][w], ring.keys[k].m); vf_assert(mpz_cmp_ui(g, 1) == 0, "masked components are units"); }
  H_END();
}
