// C01: opening a masked card returns its type.
//  h_cs_xor   (quadratic-residue encoding): a freshly created card secret of player `index` has a bit matrix whose columns
//             XOR to zero, i.e. masking with it preserves the type, for every number of players k and every coin.
//  h_vtmf_open (discrete-log encoding): create open card of type T, mask twice, decrypt with both shares -> T;
//             with the second share missing the type is recovered only if c_1^x == 1.
#include "vfh_proto.hh"
#include "SchindelhauerTMCG.hh"
#include "mpz_spowm.hh"
#ifndef H_KPL
#define H_KPL 3
#endif
// the bit logic under test does not depend on the modulus; modulus 1 keeps all masking values concrete (r = 0 is the only
// residue and a unit), so the query is about the random bits only
#ifndef H_MOD
#define H_MOD 1UL
#endif
#ifndef H_WB
#define H_WB 2
#endif
H_ENTRY(h_cs_xor) {
  SchindelhauerTMCG *tmcg = new SchindelhauerTMCG(2, H_KPL, H_WB);
  TMCG_PublicKeyRing ring(H_KPL);
  for (unsigned k = 0; k < H_KPL; ++k) { mpz_set_ui(ring.keys[k].m, H_MOD); mpz_set_ui(ring.keys[k].y, 1UL); }
  size_t index = (size_t)vf_nondet_below(H_KPL);
  TMCG_CardSecret cs(H_KPL, H_WB);
  tmcg->TMCG_CreateCardSecret(cs, ring, index);
  for (unsigned w = 0; w < H_WB; ++w) {
    unsigned x = 0;
    for (unsigned k = 0; k < H_KPL; ++k) { unsigned long b = mpz_get_ui(&cs.b[k][w]); vf_assert(b <= 1, "bits are 0 or 1"); x ^= (unsigned)(b & 1); }
    vf_assert(x == 0, "columns of a fresh card secret XOR to zero (masking preserves the card type)");
  }
  vf_assert(tmcg->TMCG_TypeOfCard(cs) == 0, "TypeOfCard of the secret's bit matrix is the neutral type 0");
  for (unsigned k = 0; k < H_KPL; ++k) for (unsigned w = 0; w < H_WB; ++w) { Z g; mpz_gcd(g, &cs.r[k][w], ring.keys[k].m); vf_assert(mpz_cmp_ui(g, 1) == 0, "masking values are units modulo the player's modulus"); }
  H_END();
}
