# INDEX.py - every harness: which real sources are encoded, entry, bounds, toy configuration
PGP = ['CallasDonnerhackeFinneyShawThayerRFC4880.cc']
HARNESSES = []
def H(**kw):
    HARNESSES.append(kw)

# ------------------------------------------------------------------ C19
H(id='C19_pktlen_roundtrip', property='C19', src='C19_openpgp.cc', entry='h_pktlen_roundtrip', tu=PGP, unwind=8,
  desc='PacketLengthEncode == RFC 4880 4.2.2 reference; PacketLengthDecode(PacketLengthEncode(len)) == len',
  symbolic='len: all 2^32 values', bounds='len < 2^32 (size_t arguments above are outside the format)')
H(id='C19_pktlen_decode', property='C19', src='C19_openpgp.cc', entry='h_pktlen_decode', tu=PGP, unwind=8,
  desc='PacketLengthDecode == reference for arbitrary header octets, old and new format, partial lengths',
  symbolic='0..5 header octets (all values), newformat, lentype (all 256)', bounds='header buffer <= 5 octets')
H(id='C19_tag', property='C19', src='C19_openpgp.cc', entry='h_tag_encode', tu=PGP, unwind=4,
  desc='PacketTagEncode emits the new-format tag octet', symbolic='tag 0..63', bounds='-')
H(id='C19_radix64', property='C19', src='C19_openpgp.cc', entry='h_radix64', tu=PGP, unwind=12,
  desc='Radix64Encode == RFC reference, decode(encode(x)) == x', symbolic='byte string, all values', bounds='length 0..3 (quick) / 0..7 (thorough), one query per length',
  defines={'H_R64_MAX': 7}, slices=[{'H_LEN': n} for n in range(0, 4)], tiers={'thorough': {'slices': [{'H_LEN': n} for n in range(0, 8)]}})
H(id='C19_radix64_wrap', property='C19', src='C19_openpgp.cc', entry='h_radix64_wrap', tu=PGP, unwind=14,
  config={'TMCG_OPENPGP_RADIX64_MC': 4},
  desc='line wrapping: CRLF exactly after every MC characters, none trailing; wrapped text decodes to the input',
  symbolic='byte string, all values', bounds='length 0..3 (quick) / 0..7 (thorough), one query per length; TMCG_OPENPGP_RADIX64_MC shrunk to 4 so that wrap boundaries +-2 are inside the bound',
  defines={'H_R64_MAX': 7}, slices=[{'H_LEN': n} for n in range(0, 4)], tiers={'thorough': {'slices': [{'H_LEN': n} for n in range(0, 8)]}})
H(id='C19_crc24', property='C19', src='C19_openpgp.cc', entry='h_crc24', tu=PGP, unwind=10,
  desc='CRC24Compute == bitwise polynomial division of RFC 4880 6.1', symbolic='byte string, all values', bounds='length <= 3')
H(id='C19_scalar_time', property='C19', src='C19_openpgp.cc', entry='h_scalar_time', tu=PGP, unwind=6,
  desc='PacketScalarFourEncode / PacketTimeEncode big-endian layout', symbolic='all 2^32 values', bounds='-')

# ------------------------------------------------------------------ C12 (OpenPGP leaf decoders)
for _e, _n, _q, _t in (('h_subpacket_decode', 'subpacket', range(0, 9), range(0, 13)), ('h_body_extract', 'bodyextract', range(0, 7), range(0, 10)),
                       ('h_string_decode', 'pktstring', range(0, 7), range(0, 10)), ('h_radix64_decode', 'radix64dec', range(0, 5), range(0, 8))):
    H(id='C12_pgp_' + _n, property='C12', src='C12_openpgp.cc', entry=_e, tu=PGP, unwind=10, defines={'H_MAXLEN': 16}, full_checks=True,
      desc='arbitrary bytes into %s: no out-of-bounds access, invalid iterator range, assert/abort, non-standard exception, non-termination' % _e[2:],
      symbolic='every byte string of the slice length', bounds='input length %d..%d (quick) / ..%d (thorough), one query per length; default configuration macros' % (_q[0], _q[-1], _t[-1]),
      slices=[{'H_LEN': n} for n in _q], tiers={'thorough': {'slices': [{'H_LEN': n} for n in _t]}})

# ------------------------------------------------------------------ C09 (arithmetic primitives)
COIN = {'tmcg_mpz_srandomm': 'vfstub_randomm', 'tmcg_mpz_ssrandomm': 'vfstub_randomm', 'tmcg_mpz_wrandomm': 'vfstub_randomm',
        'tmcg_mpz_wrandom_ui': 'vfstub_random_ui', 'tmcg_mpz_srandom_ui': 'vfstub_random_ui', 'tmcg_mpz_ssrandom_ui': 'vfstub_random_ui',
        'tmcg_mpz_srandomb': 'vfstub_randomb', 'tmcg_mpz_ssrandomb': 'vfstub_randomb', 'tmcg_mpz_wrandomb': 'vfstub_randomb'}
def C09(name, entry, desc, symbolic, tu=('mpz_spowm.cc',), W=5, WT=6, fp=4, fpT=5, pslice=True, **kw):
    qs = [{'H_P': p} for p in range(3, 1 << W, 2)] if pslice else None
    ts = [{'H_P': p} for p in range(3, 1 << WT, 2)] if pslice else None
    H(id='C09_' + name, property='C09', src='C09_arith.cc', entry=entry, tu=list(tu), unwind=12, replace=COIN,
      defines={'VF_BITS': 2 * W + 4, 'H_W': W, 'H_MAXDRAWS': 3}, config={'TMCG_MAX_FPOWM_T': fp}, desc=desc, symbolic=symbolic, slices=qs,
      bounds='every odd modulus p < 2^%d (quick) / 2^%d (thorough), one query per p (p concrete in a query, all other inputs symbolic); TMCG_MAX_FPOWM_T=%d/%d; GMP model (2W+4)-bit; rejection-loop draws <= 3 (quick) / 4 (thorough)' % (W, WT, fp, fpT),
      assumptions=['coin stubs: tmcg_mpz_*random{m,b} return an arbitrary value in their documented range (at most 3/4 draws per harness)'],
      tiers={'thorough': {'defines': {'VF_BITS': 2 * WT + 4, 'H_W': WT, 'H_MAXDRAWS': 4}, 'config': {'TMCG_MAX_FPOWM_T': fpT}, 'timeout': 3000, 'slices': ts}}, **kw)
C09('spowm', 'h_spowm', 'tmcg_mpz_spowm == plain modular exponentiation, exponent of either sign and zero', 'odd modulus p, unit base m, exponent x: all values')
C09('spowm_kf1', 'h_spowm_kf1', 'known finding KF1: positive exponent divisible by the modulus', 'm, x = k*p', W=4, WT=5)
C09('spowm_even', 'h_spowm_even', 'even modulus refused by standard exception', 'even p, m, x all values', pslice=False)
C09('spowm_baseblind', 'h_spowm_baseblind', 'Chaum-blinded power == plain power for every blinding value', 'p, m, x and the blinding coins')
C09('spowm_kocher', 'h_spowm_kocher', 'Kocher-blinded init/calc/calc == plain power incl. seed update', 'p, m, m2, x >= 0 and the blinding coins')
C09('fpowm', 'h_fpowm', 'table power == plain power up to the table limit, refused one bit beyond', 'p, m, x with |x| < 2^(T+1)')
C09('fspowm', 'h_fspowm', 'constant-time table power == plain power up to the table limit, refused one bit beyond', 'p, m, x with |x| < 2^(T+1)')
C09('fpowm_ui', 'h_fpowm_ui', 'table power (ui) == plain power up to the table limit, refused beyond', 'p, m, x < 2^(T+1)')
C09('fpowm_wrongbase', 'h_fpowm_wrongbase', 'table powers refuse a base other than table[0]', 'p, m, other base in [-2,2^W), variant')
def primes_below(n): return [p for p in range(3, n) if all(p % d for d in range(2, int(p ** .5) + 1))]
def C09S(name, entry, desc, W, WT, pairs=False, **kw):
    if pairs:
        mk = lambda lim: [{'H_P': p, 'H_Q': q, 'VF_BITS': 2 * (p * q).bit_length() + 2} for p in primes_below(lim) for q in primes_below(lim) if p < q and p * q < 2 * lim * 2]
    else:
        mk = lambda lim: [{'H_P': p} for p in primes_below(lim)]
    H(id='C09_' + name, property='C09', src='C09_arith.cc', entry=entry, tu=['mpz_sqrtm.cc'], unwind=12, replace=COIN,
      defines={'VF_BITS': 2 * WT + 4, 'H_W': W, 'H_MAXDRAWS': 3}, desc=desc, symbolic='the quadratic residue a = y^2 for an arbitrary unit y; coins of the randomized variants',
      slices=mk(1 << W), bounds='every prime p < 2^%d (quick) / 2^%d (thorough)%s, one query per modulus; draws <= 3' % (W, WT, ' and products of two of them' if pairs else ''),
      assumptions=['coin stubs: tmcg_mpz_*random{m,b} return an arbitrary value in their documented range (at most 3 draws per harness)'],
      tiers={'thorough': {'slices': mk(1 << WT), 'timeout': 3000}}, **kw)
C09S('sqrtmp', 'h_sqrtmp', 'tmcg_mpz_sqrtmp: root^2 == a for every quadratic residue of every prime (p mod 8 = 1,3,5,7 incl. high 2-adic order 17, 97, 113)', 5, 7)
C09S('sqrtmp_r', 'h_sqrtmp_r', 'tmcg_mpz_sqrtmp_r (randomized): root^2 == a for every quadratic residue and every non-residue draw', 5, 7)
C09S('sqrtmp_zero', 'h_sqrtmp_zero', 'a = 0 refused', 4, 5)
C09S('sqrtmn', 'h_sqrtmn', 'tmcg_mpz_sqrtmn / _r: root^2 == a mod pq', 4, 5, pairs=True)
C09S('sqrtmn_all', 'h_sqrtmn_all', 'tmcg_mpz_sqrtmn_all / _r_all: four distinct roots, each squares to a', 4, 5, pairs=True)
C09S('qrmn_p', 'h_qrmn_p', 'tmcg_mpz_qrmn_p == existence of a square root mod pq', 4, 5, pairs=True)

# ------------------------------------------------------------------ C07 (uniformity as counting)
H(id='C07_nomodbias', property='C07', src='C07_uniform.cc', entry='h_nomodbias', tu=['mpz_srandom.cc'], unwind=5,
  replace={'tmcg_mpz_grandom_ui': 'vfstub_grandom_ui'}, defines={'VF_BITS': 15},
  desc='bounded sampler tmcg_mpz_{ss,s,w}random_mod: accepted raw draws form complete residue blocks (=> exactly uniform residues), result = draw mod m < m',
  symbolic='modulus m (all 64-bit values >= 2), two raw 64-bit draws, quality level', bounds='full 64-bit width; at most 3 raw draws per call',
  assumptions=['libgcrypt delivers independent uniform 64-bit words (tmcg_mpz_grandom_ui replaced by a scripted source)'], backend=['cvc5int', 'kissat'], timeout=900)
H(id='C07_nomodbias_top', property='C07', src='C07_uniform.cc', entry='h_nomodbias_top', tu=['mpz_srandom.cc'], unwind=5,
  replace={'tmcg_mpz_grandom_ui': 'vfstub_grandom_ui'}, defines={'VF_BITS': 15},
  desc='bounded sampler: the top element of an accepted draw\'s residue block is accepted and maps to m-1 (directed block completeness)',
  symbolic='modulus m (all 64-bit values >= 2), raw draw, level', bounds='full 64-bit width',
  assumptions=['libgcrypt delivers independent uniform 64-bit words (tmcg_mpz_grandom_ui replaced by a scripted source)'], backend=['cvc5int', 'kissat'], timeout=900)
H(id='C07_nomodbias_bad', property='C07', src='C07_uniform.cc', entry='h_nomodbias_bad', tu=['mpz_srandom.cc'], unwind=5,
  replace={'tmcg_mpz_grandom_ui': 'vfstub_grandom_ui'}, defines={'VF_BITS': 15},
  desc='moduli 0 and 1 refused', symbolic='m in {0,1}, level', bounds='-')

# ------------------------------------------------------------------ C02 / C07: permutation generators
RMOD = {'tmcg_mpz_srandom_mod': 'vfstub_random_mod', 'tmcg_mpz_ssrandom_mod': 'vfstub_random_mod', 'tmcg_mpz_wrandom_mod': 'vfstub_random_mod'}
for _prop, _e, _n, _d in (('C02', 'h_perm', 'perm', 'random_permutation_fast: result is a bijection'), ('C07', 'h_perm', 'perm_moduli', 'random_permutation_fast: draw i uses modulus n-i'),
                          ('C07', 'h_perm_injective', 'perm_injective', 'random_permutation_fast: draw vector -> permutation is injective (=> bijective onto S_n => uniform)'),
                          ('C02', 'h_rotation', 'rotation', 'random_rotation: cyclic shift by exactly the reported offset'), ('C07', 'h_rotation', 'rotation_uniform', 'random_rotation: one draw with modulus n, injective')):
    H(id='%s_%s' % (_prop, _n), property=_prop, src='C02_perm.cc', entry=_e, tu=['SchindelhauerTMCG.cc'], unwind=10, replace=RMOD, defines={'VF_BITS': 15},
      desc=_d, symbolic='all draws (each in its requested range)', bounds='n = 2..6 (quick) / 2..9 (thorough), one query per n',
      assumptions=['bounded sampler replaced by its contract: an arbitrary value in [0, m) for the requested m (the sampler itself is C07_nomodbias)'],
      slices=[{'H_N': n} for n in range(2, 7)], tiers={'thorough': {'slices': [{'H_N': n} for n in range(2, 10)]}})
def STS(nmax):
    out = []
    for n in range(1, nmax + 1):
        import itertools
        for pre in itertools.product(range(n + 1), repeat=n - 1):      # preceding indices 0..n (n itself = out of range)
            out.append({'H_N': n, 'H_PREFIX': int(''.join(str(d) for d in pre) or '0')})
    return out
H(id='C02_sts_import', property='C02', src='C02_import.cc', entry='h_sts_import', tu=['VTMF_CardSecret.cc', 'parse_helper.cc', 'mpz_helper.cc'], unwind=12,
  defines={'VF_BITS': 15, 'MINISTL_STRING_MINCAP': 63}, timeout=1200,
  desc='TMCG_StackSecret<VTMF_CardSecret>::import accepts exactly the bijective index vectors', symbolic='the last index digit (0..9); the preceding indices are enumerated by slices over 0..n',
  bounds='n = 1..2 (quick) / 1..3 (thorough); single-digit indices; card secret text fixed', slices=STS(2), tiers={'thorough': {'slices': STS(3), 'timeout': 1500}})

# ------------------------------------------------------------------ protocol harnesses: common settings
PROTO_REPLACE = dict(COIN)
PROTO_REPLACE.update({
  'operator<<(std::ostream&, __mpz_struct const*)': 'vfstub_mpz_out(std::ostream&, __mpz_struct const*)',
  'operator>>(std::istream&, __mpz_struct*)': 'vfstub_mpz_in(std::istream&, __mpz_struct*)',
  'tmcg_mpz_shash(__mpz_struct*, unsigned long, ...)': 'vfstub_shash_va(__mpz_struct*, unsigned long, ...)',
  'tmcg_mpz_shash(__mpz_struct*, std::string const&)': 'vfstub_shash_str(__mpz_struct*, std::string const&)',
  'tmcg_mpz_shash_len': 'vfstub_shash_len', 'tmcg_mpz_shash_1vec': 'vfstub_shash_1vec', 'tmcg_mpz_shash_2vec': 'vfstub_shash_2vec', 'tmcg_mpz_shash_4vec': 'vfstub_shash_4vec',
  'tmcg_mpz_shash_2pairvec': 'vfstub_shash_2pairvec', 'tmcg_mpz_shash_2pairvec2vec': 'vfstub_shash_2pairvec2vec', 'tmcg_mpz_shash_4pairvec2vec': 'vfstub_shash_4pairvec2vec'})
PROTO_ASSUME = ['coin stubs: tmcg_mpz_*random{m,b} return an arbitrary value in their documented range (bounded number of draws)',
                'hash tmcg_mpz_shash*: memoised nondeterministic function of the argument values, digest width H_DBITS bits (random-oracle idealisation restricted to the calls made)',
                'mpz stream operators: binary tokens instead of base-62 text (the text operators are checked separately)']
def GRP(p, q, g, k, dbits=4):
    vb = max(2 * p.bit_length(), dbits + q.bit_length() + 1) + 1
    return dict(H_P=p, H_Q=q, H_G=g, H_K=k, VF_BITS=vb)
GROUPS_Q = [GRP(7, 3, 2, 2)]
GROUPS_T = GROUPS_Q + [GRP(11, 5, 3, 2), GRP(13, 3, 3, 4), GRP(23, 11, 2, 2)]
VTMF_TU = ['BarnettSmartVTMF_dlog.cc', 'mpz_spowm.cc', 'mpz_sprime.cc']
def PROTO(prop, name, src, entry, desc, symbolic, tu=VTMF_TU, groups=None, groupsT=None, **kw):
    d = dict(id='%s_%s' % (prop, name), property=prop, src=src, entry=entry, tu=list(tu), unwind=24, replace=PROTO_REPLACE,
             defines={'VF_BITS': 12, 'H_MAXDRAWS': 12, 'MINISTL_STREAM_CAP': 512, 'H_DBITS': 4}, config={'TMCG_MAX_FPOWM_T': 8},
             desc=desc, symbolic=symbolic, assumptions=PROTO_ASSUME, slices=groups or GROUPS_Q, backend='kissat', memgb=6,
             bounds='toy Schnorr groups (p,q,g,k) one query per group: quick %s; thorough adds more; 4-bit digests; TMCG_MAX_FPOWM_T=8' % [tuple(g.values()) for g in (groups or GROUPS_Q)],
             tiers={'thorough': {'slices': groupsT or GROUPS_T, 'timeout': 3000}})
    d.update(kw); H(**d)
for _e, _n, _d, _s in (('h_key_nizk', 'vtmf_key_nizk', 'key-share NIZK: PublishKey -> UpdateKey accepted', 'secret key x_i, commitment coin v, digest'),
                       ('h_cp', 'vtmf_cp', 'CP_Prove -> CP_Verify accepted (plain exponentiation)', 'alpha, both bases, coin omega, digest'),
                       ('h_cp_fpowm', 'vtmf_cp_fpowm', 'CP_Prove -> CP_Verify accepted (table-based exponentiation, gg=g, hh=h)', 'key, alpha, coin, digest'),
                       ('h_masking', 'vtmf_masking', 'VerifiableMaskingProtocol Mask/Prove -> Verify accepted', 'key, message, masking exponent, coins, digest'),
                       ('h_remasking', 'vtmf_remasking', 'VerifiableRemaskingProtocol Mask/Prove -> Verify accepted', 'key, ciphertext, exponent, coins, digest'),
                       ('h_decryption', 'vtmf_decryption', 'two players: decryption share Prove -> Verify_Update accepted; Finalize opens to the message', 'both keys, message, all coins, digests')):
    PROTO('C03', _n, 'C03_vtmf.cc', _e, _d, _s)
    if _e == 'h_decryption': HARNESSES[-1]['in_tiers'] = ('thorough',)

# ------------------------------------------------------------------ C05 (binding) on the VTMF
def PROTO5(name, entry, desc, **kw):
    PROTO('C05', name, 'C05_vtmf.cc', entry, desc, 'prover coins and secrets, the edited position (all transmitted values and public inputs), the replacement value in [-2p, 3p)', **kw)
    HARNESSES[-1]['defines'] = dict(HARNESSES[-1]['defines'], H_COLLISION_FREE=1)
    HARNESSES[-1]['assumptions'] = PROTO_ASSUME + ['hash is collision-free on the calls made (distinct inputs get distinct digests)']
PROTO5('vtmf_nizk', 'h_t_nizk', 'key-share NIZK: one edited value => refused unless equivalent response; refused contribution leaves h unchanged')
PROTO5('vtmf_cp', 'h_t_cp', 'CP proof: one edited transcript value or public input => refused unless equivalent response')
PROTO5('vtmf_masking', 'h_t_masking', 'masking proof: one edited transcript value or card component => refused unless equivalent response')

# ------------------------------------------------------------------ C08 (common key)
def PROTO8(name, entry, desc, symbolic, **kw):
    PROTO('C08', name, 'C08_keygen.cc', entry, desc, symbolic, **kw)
    HARNESSES[-1]['defines'] = dict(HARNESSES[-1]['defines'], H_COLLISION_FREE=1, H_HMAX=10)
    HARNESSES[-1]['assumptions'] = PROTO_ASSUME + ['hash is collision-free on the calls made (distinct inputs get distinct digests)']
def XBC(groups): return [dict(g, H_XB=xb, H_XC=xc, H_FP_IDENTITY=1, MINISTL_MAP_MAX=3) for g in groups for xb in range(g['H_Q']) for xc in range(g['H_Q']) if xb != xc]
PROTO8('order', 'h_order', 'three players: common key equal for both processing orders and == product of all public keys', 'secret key of A, all proof coins, NIZK digests, the two processing orders; secret keys of B and C enumerated by slices', timeout=3000, in_tiers=('thorough',), groups=XBC(GROUPS_Q[:1]), groupsT=XBC(GROUPS_Q[:1]))
PROTO8('remove_unregistered', 'h_remove', 'add/add/remove restores the previous key; unknown removal refused', 'key of A, coins, NIZK digests; keys of B != C enumerated by slices', timeout=3000, memgb=14, in_tiers=('thorough',), groups=XBC(GROUPS_Q[:1]), groupsT=XBC(GROUPS_Q[:1]))
HARNESSES[-1]['property'] = 'C08_unregistered'   # add/remove harness: out of memory at 6-14 GB (two symbolic map shapes); kept for reference
PROTO8('outgroup', 'h_outgroup', 'key = u*g^x with u outside G plus a proof honestly computed for it: refused, key unchanged', 'x, u, coins, digests')
PROTO8('bad', 'h_bad', 'arbitrary / truncated contribution: accepted only if complete and key in G; refused => key and count unchanged', 'key value in [-2,2p), c, r in [-q,2q), number of tokens present')

# ------------------------------------------------------------------ C06 (parameter validation == specification)
def C06(name, entry, tu, desc, qsel=None):
    mk = lambda W: [dict(H_P=p, H_W=W, VF_BITS=2 * W + 4) for p in range(0, 1 << W) if (qsel is None or W > 4 or p in qsel)]
    H(id='C06_' + name, property='C06', src='C06_groups.cc', entry=entry, tu=tu, unwind=24, replace=PROTO_REPLACE,
      defines={'H_MAXDRAWS': 4, 'MINISTL_STREAM_CAP': 256, 'H_DBITS': 4, 'H_HMAX': 5, 'MINISTL_STRING_MINCAP': 63}, config={'TMCG_MAX_FPOWM_T': 8},
      desc=desc, symbolic='q, k / h, g in [-1, 2^W+2), canonical flag, element a in [-2, p+3), hash oracle outputs', assumptions=PROTO_ASSUME,
      bounds='every p in [0, 2^W), W=4 (quick) / 5 (thorough), one query per p; F_size=3, G_size=2; at most 4 generator candidates',
      slices=mk(4), backend='kissat', memgb=6, tiers={'thorough': {'slices': mk(5), 'timeout': 3000}})
C06('vtmf', 'h_vtmf_group', ['NaorPinkasEOTP.cc', 'JareckiLysyanskayaASTC.cc', 'PedersenVSS.cc', 'BarnettSmartVTMF_dlog.cc', 'mpz_spowm.cc', 'mpz_sprime.cc'], 'BarnettSmartVTMF_dlog::CheckGroup/CheckElement == specification (random and canonical generator)')
C06('pvss', 'h_pvss_group', ['NaorPinkasEOTP.cc', 'JareckiLysyanskayaASTC.cc', 'PedersenVSS.cc', 'BarnettSmartVTMF_dlog.cc', 'mpz_spowm.cc', 'mpz_sprime.cc'], 'PedersenVSS::CheckGroup/CheckElement == specification (verifiable generator, h != g)')

# ------------------------------------------------------------------ C16 (verifiers == textbook)
ASTC_TU = ['CanettiGennaroJareckiKrawczykRabinASTC.cc', 'GennaroJareckiKrawczykRabinDKG.cc', 'JareckiLysyanskayaASTC.cc', 'PedersenVSS.cc', 'mpz_spowm.cc', 'mpz_sprime.cc']
PROTO('C16', 'dss_verify', 'C16_verify.cc', 'h_dss_verify', 'CanettiGennaroJareckiKrawczykRabinDSS::Verify == DSA verification equation and range conditions, both directions',
      'public key y = g^x (all x), m, r, s in [-2, 2q+2)', tu=ASTC_TU, groups=[GRP(11, 5, 3, 2), GRP(23, 11, 2, 2)], groupsT=[GRP(23, 11, 2, 2), GRP(11, 5, 3, 2), GRP(47, 23, 2, 2), GRP(29, 7, 7, 4)])
PROTO('C16', 'nts_verify', 'C16_verify.cc', 'h_nts_verify', 'GennaroJareckiKrawczykRabinNTS::Verify == Schnorr verification equation, both directions',
      'public key y = g^x (all x), m, c in [-1, 2^4], s in [-q, 2q]', tu=ASTC_TU, groups=[GRP(11, 5, 3, 2), GRP(23, 11, 2, 2)], groupsT=[GRP(23, 11, 2, 2), GRP(11, 5, 3, 2), GRP(47, 23, 2, 2), GRP(29, 7, 7, 4)])

# ------------------------------------------------------------------ C18 (oblivious transfer)
EOTP_TU = ['NaorPinkasEOTP.cc', 'mpz_spowm.cc', 'mpz_sprime.cc']
for _n in (2, 3):
    PROTO('C18', 'ot_n%d' % _n, 'C18_eotp.cc', 'h_ot_n', '1-of-%d: chooser outputs M_sigma (honest run, all coins)' % _n, 'index sigma, messages in G, all coins of chooser and sender',
          tu=EOTP_TU, groups=[dict(GRP(7, 3, 2, 2), H_N=_n)], groupsT=[dict(GRP(11, 5, 3, 2), H_N=_n), dict(GRP(7, 3, 2, 2), H_N=_n)], timeout=3000)
    HARNESSES[-1]['defines'] = dict(HARNESSES[-1]['defines'], H_MAXDRAWS=24)
    if _n != 2: HARNESSES[-1]['in_tiers'] = ('thorough',)
    PROTO('C18', 'ot_n%d_firstmove' % _n, 'C18_eotp.cc', 'h_ot_n_firstmove', '1-of-%d sender answers exactly well-formed first moves (group elements, pairwise distinct z_i)' % _n, 'x, y, z_i each in [-1, p+2), sender coins',
          tu=EOTP_TU, groups=[dict(GRP(7, 3, 2, 2), H_N=_n)], groupsT=[dict(GRP(11, 5, 3, 2), H_N=_n), dict(GRP(7, 3, 2, 2), H_N=_n)], timeout=3000)
    HARNESSES[-1]['defines'] = dict(HARNESSES[-1]['defines'], H_MAXDRAWS=24)
GCRY_MODELS = ['gmp_model.c', 'libc_model.c', 'gcry_model.c']
H(id='C12_pgp_mpidecode', property='C12', src='C12_openpgp.cc', entry='h_mpi_decode', tu=PGP, unwind=12, defines={'H_MAXLEN': 16}, models=GCRY_MODELS,
  desc='arbitrary bytes into PacketMPIDecode: no out-of-bounds access, abort, non-standard exception', symbolic='every byte string of the slice length',
  bounds='input length 0..6 (quick) / ..9 (thorough); gcry_mpi model holds up to 8 magnitude bytes', assumptions=['libgcrypt MPI functions replaced by models/gcry_model.c'],
  slices=[{'H_LEN': n} for n in range(0, 7)], tiers={'thorough': {'slices': [{'H_LEN': n} for n in range(0, 10)]}})
H(id='C19_mpi', property='C19', src='C19_openpgp.cc', entry='h_mpi_roundtrip', tu=PGP, unwind=12, models=GCRY_MODELS,
  desc='PacketMPIEncode == RFC 4880 3.2 layout; PacketMPIDecode(PacketMPIEncode(x)) == x', symbolic='all integers below 2^24 (incl. 0, leading-zero cases)', bounds='values < 2^24',
  assumptions=['libgcrypt MPI functions replaced by models/gcry_model.c'])
for _e, _n, _tu in (('h_ctor_pvss', 'ctor_pvss', ['PedersenVSS.cc']), ('h_ctor_vtmf_stream', 'ctor_vtmf_stream', ['BarnettSmartVTMF_dlog.cc']), ('h_ctor_eotp', 'ctor_eotp', ['NaorPinkasEOTP.cc'])):
    H(id='C12_' + _n, property='C12', src='C12_ctor.cc', entry=_e, tu=_tu + ['mpz_spowm.cc', 'mpz_sprime.cc'], unwind=24, replace=PROTO_REPLACE,
      defines={'VF_BITS': 10, 'H_MAXDRAWS': 4, 'MINISTL_STREAM_CAP': 256, 'H_DBITS': 4, 'H_HMAX': 5, 'MINISTL_STRING_MINCAP': 63}, config={'TMCG_MAX_FPOWM_T': 8},
      desc='constructor + CheckGroup on hostile integers (zero / negative / tiny modulus): clean refusal, never process death', symbolic='q, g, h/k in [-1, 8)', assumptions=PROTO_ASSUME,
      bounds='modulus p in {-1,0,1,2,3,7} one query each', slices=[{'H_P': p} for p in (-1, 0, 1, 2, 3, 7)], backend='kissat', memgb=6)

# ------------------------------------------------------------------ C04 (soundness, wrong witness) on the VTMF
def PROTO4(name, entry, desc, sym):
    PROTO('C04', name, 'C04_vtmf.cc', entry, desc, sym)
    HARNESSES[-1]['defines'] = dict(HARNESSES[-1]['defines'], H_COLLISION_FREE=1)
    HARNESSES[-1]['assumptions'] = PROTO_ASSUME + ['hash collision-free on the calls made; digest of a fresh input differs from the challenge already sent (Fiat-Shamir unpredictability)']
PROTO4('vtmf_cp', 'h_w_cp', 'CP proof for x=gg^a, y=hh^b, a != b: accepted only if c == 0 (mod q)', 'a, b, bases, coin, digests')
PROTO4('vtmf_mask', 'h_w_mask', 'masking proof presented for another message: accepted only if c == 0 (mod q)', 'key, both messages, masking exponent, coins, digests')
PROTO4('vtmf_decrypt', 'h_w_decrypt', 'decryption share computed with a key other than the published one: accepted only if c == 0 (mod q)', 'both keys, replacement key, c_1, coins, digests')

# ------------------------------------------------------------------ C01
H(id='C01_cs_xor', property='C01', src='C01_card.cc', entry='h_cs_xor', tu=['SchindelhauerTMCG.cc', 'TMCG_CardSecret.cc', 'TMCG_PublicKey.cc', 'TMCG_Card.cc'], unwind=6, unwindset={'_ZNSt11char_traitsIcE6lengthEPKc.0': 64, '_ZNSs6appendEPKcm.1': 64}, timeout=1200, replace=PROTO_REPLACE,
  defines={'VF_BITS': 12, 'H_MAXDRAWS': 40, 'H_DBITS': 4, 'MINISTL_STREAM_CAP': 128}, config={'TMCG_MAX_FPOWM_T': 8, 'TMCG_MAX_PLAYERS': 4, 'TMCG_MAX_TYPEBITS': 3},
  desc='quadratic-residue encoding: a fresh card secret preserves the type (bit columns XOR to 0) for k players', symbolic='all random bits of the other players (player count and masking player enumerated by slices)',
  bounds='k = 2,3,4 players (one query each), w = 2 type bits; moduli set to 1 so that masking values are concrete (the bit logic does not depend on them)', assumptions=PROTO_ASSUME, slices=[{'H_KPL': k, 'H_IDX': i} for k in (2, 3, 4) for i in range(k)], backend='kissat', memgb=8)

# ------------------------------------------------------------------ C11 (real text operators)
H(id='C11_mpz_text', property='C11', src='C11_roundtrip.cc', entry='h_mpz_text', tu=['mpz_helper.cc'], unwind=12, defines={'VF_BITS': 13, 'H_VMAX': 4000, 'MINISTL_STREAM_CAP': 64},
  desc='operator<< / operator>> for mpz (base-62 text): value and text round trip', symbolic='integer in [-4000, 4000]', bounds='|v| <= 4000 (up to two base-62 digits and sign)', models=GCRY_MODELS, backend='kissat')
PROTO('C03', 'pedersen', 'C03_pedersen.cc', 'h_pedersen', 'Pedersen commitment: Commit -> Verify accepted, CommitBy reproduces, another message vector refused; n = 3 > TMCG_MAX_FPOWM_N = 2',
      'three messages, randomizer, timing flag, edited position and value', tu=['PedersenCOM.cc', 'mpz_spowm.cc', 'mpz_sprime.cc'], groups=[dict(H_P=11, H_Q=5, H_K=2, VF_BITS=9)], groupsT=[dict(H_P=11, H_Q=5, H_K=2, VF_BITS=9)])
HARNESSES[-1]['config'] = {'TMCG_MAX_FPOWM_T': 8, 'TMCG_MAX_FPOWM_N': 2}

# ------------------------------------------------------------------ C20 (structural core)
H(id='C20_sig_validity', property='C20', src='C20_validity.cc', entry='h_sig_validity', tu=PGP, unwind=8, models=GCRY_MODELS,
  desc='TMCG_OpenPGP_Signature::CheckValidity == specification (expiry, older than key, > 25 h in the future, weak hash)', symbolic='creation, expiration, key creation time (all 32-bit values), current time (any value < 2^40), hash id (all 256)',
  bounds='full 32-bit time fields', assumptions=['time() returns an arbitrary instant'])
PROTO('C03', 'skc', 'C03_skc.cc', 'h_skc', 'Groth SKC (shuffle of known content), non-interactive: Prove -> Verify accepted, n = 2',
      'permutation, both messages, randomizer, all prover coins, digests (challenges != 0 mod q)', tu=['GrothVSSHE.cc', 'PedersenCOM.cc', 'mpz_spowm.cc', 'mpz_sprime.cc'],
      groups=[dict(H_P=11, H_Q=5, H_K=2, VF_BITS=9)], groupsT=[dict(H_P=11, H_Q=5, H_K=2, VF_BITS=9)], timeout=1500)
HARNESSES[-1]['defines'] = dict(HARNESSES[-1]['defines'], H_DIGEST_UNIT=1, H_MAXDRAWS=24)
HARNESSES[-1]['assumptions'] = PROTO_ASSUME + ['exceptional set at toy size: challenges x, e are not 0 modulo q (the verifier asserts that e is invertible; probability 2^-l_e at real sizes)']
PROTO('C05', 'skc', 'C03_skc.cc', 'h_skc_tamper', 'Groth SKC non-interactive: one transmitted exponent (f_i, z, f_Delta, z_Delta) replaced => refused unless same residue and below q',
      'permutation, messages, randomizer, prover coins, digests, edited position, replacement in [-2q,3q)', tu=['GrothVSSHE.cc', 'PedersenCOM.cc', 'mpz_spowm.cc', 'mpz_sprime.cc'],
      groups=[dict(H_P=11, H_Q=5, H_K=2, VF_BITS=9)], groupsT=[dict(H_P=11, H_Q=5, H_K=2, VF_BITS=9)], timeout=1800)
HARNESSES[-1]['defines'] = dict(HARNESSES[-1]['defines'], H_DIGEST_UNIT=1, H_MAXDRAWS=24)
HARNESSES[-1]['assumptions'] = PROTO_ASSUME + ['exceptional set at toy size: challenges x, e are not 0 modulo q']
H(id='C09_interpolate', property='C09', src='C09_arith.cc', entry='h_interpolate', tu=['mpz_helper.cc'], unwind=8, replace=COIN, models=GCRY_MODELS, backend='kissat',
  defines={'VF_BITS': 10, 'H_W': 4, 'H_MAXDRAWS': 2}, desc='tmcg_interpolate_polynom: succeeds iff abscissae distinct; result reproduces every point',
  symbolic='all abscissae and ordinates modulo q', bounds='m = 2,3 points, q in {5,7} (quick) / m <= 4, q in {5,7,11} (thorough), one query per (m,q)',
  slices=[{'H_IQ': q, 'H_IM': m} for q in (5, 7) for m in (2, 3)], tiers={'thorough': {'slices': [{'H_IQ': q, 'H_IM': m, 'VF_BITS': 10} for q in (5, 7, 11) for m in (2, 3, 4)], 'timeout': 2400}})
H(id='C19_simple_packets', property='C19', src='C19_openpgp.cc', entry='h_simple_packets', tu=PGP, unwind=10, models=GCRY_MODELS, defines={'H_PKMAX': 7},
  desc='PacketSedEncode / PacketUidEncode / PacketLitEncode byte layout; PacketBodyExtract(emitted packet) recovers tag and body', symbolic='payload bytes, packet kind, current time',
  bounds='payload 0..2 octets (quick) / 0..5 (thorough), one query per length', slices=[{'H_LEN': n} for n in range(0, 3)], tiers={'thorough': {'slices': [{'H_LEN': n} for n in range(0, 6)]}})

# ------------------------------------------------------------------ C17 (two-party coin flip)
EDCF_TU = ['JareckiLysyanskayaASTC.cc', 'mpz_spowm.cc', 'mpz_sprime.cc']
PROTO('C17_unregistered', 'flip_honest', 'C17_flip.cc', 'h_flip_honest', 'two-party flip, both honest (transcript as fixed point): both accept, same coin = a_0 + a_1 mod q', 'all four share coins', tu=EDCF_TU,
      groups=[GRP(7, 3, 2, 2)], groupsT=[GRP(11, 5, 3, 2), GRP(7, 3, 2, 2)], timeout=1500, memgb=14)
PROTO('C17', 'flip_adversary', 'C17_flip.cc', 'h_flip_adversary', 'two-party flip against an arbitrary peer: acceptance => opening matches earlier commitment, output = own + peer share; own share revealed only after a valid commitment was read',
      'own coins, peer commitment in [-1,p+2), peer openings in [-2q,2q], number of tokens delivered', tu=EDCF_TU, groups=[GRP(11, 5, 3, 2)], groupsT=[GRP(11, 5, 3, 2), GRP(7, 3, 2, 2), GRP(23, 11, 2, 2)], timeout=1500)
PROTO('C01', 'vtmf_open', 'C01_card.cc', 'h_vtmf_open', 'discrete-log encoding, 2 players: open card, masked by A then B, opens to its type with both shares; not without B unless c_1^x_B = 1',
      'type, both keys, both masking exponents, all proof coins, digests, timing flag', tu=['SchindelhauerTMCG.cc', 'BarnettSmartVTMF_dlog.cc', 'VTMF_Card.cc', 'VTMF_CardSecret.cc', 'TMCG_CardSecret.cc', 'TMCG_Card.cc', 'TMCG_PublicKey.cc', 'mpz_spowm.cc', 'mpz_sprime.cc'],
      groups=[dict(GRP(7, 3, 2, 2), H_TB=1)], groupsT=[dict(GRP(7, 3, 2, 2), H_TB=1), dict(GRP(11, 5, 3, 2), H_TB=2)], timeout=3000, in_tiers=('thorough',))
HARNESSES[-1]['config'] = {'TMCG_MAX_FPOWM_T': 8, 'TMCG_MAX_PLAYERS': 4, 'TMCG_MAX_TYPEBITS': 3}
HARNESSES[-1]['defines'] = dict(HARNESSES[-1]['defines'], H_MAXDRAWS=24, H_HMAX=10)
C06('eotp', 'h_eotp_group', ['NaorPinkasEOTP.cc', 'JareckiLysyanskayaASTC.cc', 'PedersenVSS.cc', 'BarnettSmartVTMF_dlog.cc', 'mpz_spowm.cc', 'mpz_sprime.cc'], 'NaorPinkasEOTP: construction + CheckGroup/CheckElement == specification', qsel=(0, 1, 2, 7, 11, 13, 15))
C06('rvss', 'h_rvss_group', ['NaorPinkasEOTP.cc', 'JareckiLysyanskayaASTC.cc', 'PedersenVSS.cc', 'BarnettSmartVTMF_dlog.cc', 'mpz_spowm.cc', 'mpz_sprime.cc'], 'JareckiLysyanskayaRVSS (also used by EDCF): construction + CheckGroup/CheckElement == specification (g != h)', qsel=(0, 1, 2, 7, 11, 13, 15))

# ------------------------------------------------------------------ fragments (one file per harness family; same helpers in scope)
import glob as _glob, os as _os
for _f in sorted(_glob.glob(_os.path.join(_os.path.dirname(_os.path.abspath(__file__)), 'index.d', '*.py'))):
    exec(compile(open(_f).read(), _f, 'exec'))
