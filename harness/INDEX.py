# INDEX.py - every harness: which real sources are encoded, entry, bounds, toy configuration
PGP = ['CallasDonnerhackeFinneyShawThayerRFC4880.cc']
HARNESSES = []
def H(**kw):
    HARNESSES.append(kw)

# ------------------------------------------------------------------ C19
H(id='C19_pktlen_roundtrip', property='C19', src='C19_openpgp.cc', entry='h_pktlen_roundtrip', tu=PGP, unwind=8,
  desc='PacketLengthEncode == RFC 4880 4.2.2 reference; PacketLengthDecode(PacketLengthEncode(len)) == len',
  symbolic='len: all 2^32 values', bounds='len < 2^32 (size_t arguments above are outside the format)')
H(id='C19_pktlen_decode', property='C19', src='C19_openpgp.cc', entry='h_pktlen_decode', tu=PGP, unwind=8,
  desc='PacketLengthDecode == reference for arbitrary header octets, old and new format, partial lengths',
  symbolic='0..5 header octets (all values), newformat, lentype (all 256)', bounds='header buffer <= 5 octets')
H(id='C19_tag', property='C19', src='C19_openpgp.cc', entry='h_tag_encode', tu=PGP, unwind=4,
  desc='PacketTagEncode emits the new-format tag octet', symbolic='tag 0..63', bounds='-')
H(id='C19_radix64', property='C19', src='C19_openpgp.cc', entry='h_radix64', tu=PGP, unwind=12,
  desc='Radix64Encode == RFC reference, decode(encode(x)) == x', symbolic='byte string, all values', bounds='length 0..3 (quick) / 0..7 (thorough), one query per length',
  defines={'H_R64_MAX': 7}, slices=[{'H_LEN': n} for n in range(0, 4)], tiers={'thorough': {'slices': [{'H_LEN': n} for n in range(0, 8)]}})
H(id='C19_radix64_wrap', property='C19', src='C19_openpgp.cc', entry='h_radix64_wrap', tu=PGP, unwind=14,
  config={'TMCG_OPENPGP_RADIX64_MC': 4},
  desc='line wrapping: CRLF exactly after every MC characters, none trailing; wrapped text decodes to the input',
  symbolic='byte string, all values', bounds='length 0..3 (quick) / 0..7 (thorough), one query per length; TMCG_OPENPGP_RADIX64_MC shrunk to 4 so that wrap boundaries +-2 are inside the bound',
  defines={'H_R64_MAX': 7}, slices=[{'H_LEN': n} for n in range(0, 4)], tiers={'thorough': {'slices': [{'H_LEN': n} for n in range(0, 8)]}})
H(id='C19_crc24', property='C19', src='C19_openpgp.cc', entry='h_crc24', tu=PGP, unwind=10,
  desc='CRC24Compute == bitwise polynomial division of RFC 4880 6.1', symbolic='byte string, all values', bounds='length <= 3')
H(id='C19_scalar_time', property='C19', src='C19_openpgp.cc', entry='h_scalar_time', tu=PGP, unwind=6,
  desc='PacketScalarFourEncode / PacketTimeEncode big-endian layout', symbolic='all 2^32 values', bounds='-')

# ------------------------------------------------------------------ C12 (OpenPGP leaf decoders)
for _e, _n, _q, _t in (('h_subpacket_decode', 'subpacket', range(0, 9), range(0, 13)), ('h_body_extract', 'bodyextract', range(0, 7), range(0, 10)),
                       ('h_string_decode', 'pktstring', range(0, 7), range(0, 10)), ('h_radix64_decode', 'radix64dec', range(0, 5), range(0, 8))):
    H(id='C12_pgp_' + _n, property='C12', src='C12_openpgp.cc', entry=_e, tu=PGP, unwind=10, defines={'H_MAXLEN': 16}, full_checks=True,
      desc='arbitrary bytes into %s: no out-of-bounds access, invalid iterator range, assert/abort, non-standard exception, non-termination' % _e[2:],
      symbolic='every byte string of the slice length', bounds='input length %d..%d (quick) / ..%d (thorough), one query per length; default configuration macros' % (_q[0], _q[-1], _t[-1]),
      slices=[{'H_LEN': n} for n in _q], tiers={'thorough': {'slices': [{'H_LEN': n} for n in _t]}})
