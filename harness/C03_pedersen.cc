// C03: Pedersen commitment - Verify accepts what Commit / CommitBy produce, for every message vector and coin,
// with more messages than precomputed tables (TMCG_MAX_FPOWM_N is shrunk below n so that both code paths are inside the bound)
#include "vfh_proto.hh"
#include "PedersenCOM.hh"
#ifndef H_P
#define H_P 11
#define H_Q 5
#define H_K 2
#endif
#define H_NG 3
H_ENTRY(h_pedersen) {
  Z P(H_P), Q(H_Q), K(H_K), Hh(3);
  vfh_fix_next(2); vfh_fix_next(3); vfh_fix_next(4);        // generator draws: g_i = coin^k mod p = 4, 9, 5 (concrete slice)
  PedersenCommitmentScheme *com = new PedersenCommitmentScheme(H_NG, P, Q, K, Hh, 2, 2);
  vf_assert(com->g.size() == H_NG, "three generators");
  std::vector<mpz_ptr> m;
  for (unsigned i = 0; i < H_NG; ++i) { mpz_ptr x = new mpz_t(); mpz_init(x); vfh_mpz(x, 0, H_Q); m.push_back(x); }
  Z c, r, c2;
  com->Commit(c, r, m);
  bool ok = false; H_TRY(ok = com->Verify(c, r, m));
  vf_assert(vfh_exc == 0 && ok, "Verify accepts the commitment made by Commit");
  bool tap = vf_nondet_u8() & 1;
  com->CommitBy(c2, r, m, tap);
  vf_assert(mpz_cmp(c, c2) == 0, "CommitBy with the same randomizer reproduces the commitment");
  vf_assert(com->TestMembership(c), "commitment passes the membership test");
  // binding to every message: changing one message changes the commitment unless the generator power coincides
  unsigned j = (unsigned)vf_nondet_below(H_NG);
  Z old; mpz_set(old, m[j]); long nv = vfh_range(0, H_Q); vf_assume(mpz_cmp_ui(m[j], (unsigned long)nv) != 0); mpz_set_si(m[j], nv);
  bool ok2 = true; H_TRY(ok2 = com->Verify(c, r, m));
  vf_assert(vfh_exc == 0 && !ok2, "a different message vector does not verify against the same commitment and randomizer");
  H_END();
}
