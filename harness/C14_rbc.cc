// C14: reliable broadcast (CachinKursawePetzoldShoupRBC, Bracha/CKPS01 with FIFO extension) over a harness-owned aiounicast
//   the real Broadcast / Deliver / DeliverFrom / setID / unsetID code is driven; the network, the clock and the hash are harness stubs
#include "vfh_proto.hh"
#include "CachinKursawePetzoldShoupSEABP.hh"
#ifndef H_N
#define H_N 4
#endif
#ifndef H_T
#define H_T 1
#endif
extern "C" void __vf_model_bound(void);

// ---------------------------------------------------------------- clock: one second per call of time()
static long rbc_clock = 1000;
extern "C" long rbcstub_time(long *t) { long v = rbc_clock; rbc_clock += 1; if (t) *t = v; return v; }

// ---------------------------------------------------------------- coins
// Broadcast draws five machine words per recipient that are only used when simulate_faulty_behaviour is set (never here);
// Deliver permutes the scan order of buf_msg, a buffer that no code path ever fills (asserted empty in h_honest)
extern "C" unsigned long rbcstub_wrandom_ui(void) { return 0; }
extern "C" unsigned long rbcstub_wrandom_mod(unsigned long m) { return 0; }

// ---------------------------------------------------------------- hash
// tag = H(ID, j, s): fixed injective encoding of the triple (collision-free idealisation; keeps map keys concrete whenever the
//   triple is concrete).  Domain -1..6 per component, anything else is a model bound.
// digest = H(m): memoised function, collision-free.  While rbc_hash_symbolic is off a new argument gets the next concrete
//   digest (1,2,3..), so that a concrete message prefix builds concrete maps; switched on, a new argument gets an arbitrary
//   digest in [0, 2^H_DBITS) different from all digests handed out before.
// ID = H(text) (setID): texts numbered 1,2,3.. in order of first use (injective).
#define RBC_DMAX 6
static bool rbc_hash_symbolic = false;
static long rbc_dkey[RBC_DMAX]; static long rbc_dout[RBC_DMAX]; static unsigned rbc_dn = 0;
static long rbc_digest(long x) {
  for (unsigned e = 0; e < RBC_DMAX; ++e) { if (e >= rbc_dn) break; if (rbc_dkey[e] == x) return rbc_dout[e]; }
  if (rbc_dn >= RBC_DMAX) { __vf_model_bound(); return 0; }
  long o;
  if (rbc_hash_symbolic) {
    o = (long)vf_nondet_below(1UL << H_DBITS);
    for (unsigned e = 0; e < RBC_DMAX; ++e) { if (e >= rbc_dn) break; vf_assume(rbc_dout[e] != o); }
  } else o = 1 + (long)rbc_dn;
  rbc_dkey[rbc_dn] = x; rbc_dout[rbc_dn] = o; ++rbc_dn;
  return o;
}
static inline long rbc_tagval(long id, long j, long s) {
  if (id < -1 || id > 6 || j < -1 || j > 6 || s < -1 || s > 6) { __vf_model_bound(); return 0; }
  return 1 + (((id + 1) * 8 + (j + 1)) * 8 + (s + 1));
}
void rbcstub_shash_va(mpz_ptr r, size_t n, ...) {
  va_list ap; va_start(ap, n);
  if (n == 3) {
    mpz_srcptr a = va_arg(ap, mpz_srcptr), b = va_arg(ap, mpz_srcptr), c = va_arg(ap, mpz_srcptr);
    mpz_set_si(r, rbc_tagval(vfh_val(a), vfh_val(b), vfh_val(c)));
  } else if (n == 1) {
    mpz_srcptr a = va_arg(ap, mpz_srcptr);
    mpz_set_si(r, rbc_digest(vfh_val(a)));
  } else { __vf_model_bound(); mpz_set_ui(r, 0UL); }
  va_end(ap);
}
#define RBC_IDMAX 4
static std::string *rbc_idtext[RBC_IDMAX]; static unsigned rbc_idn = 0;
void rbcstub_shash_str(mpz_ptr r, const std::string &s) {
  for (unsigned e = 0; e < RBC_IDMAX; ++e) { if (e >= rbc_idn) break; if (*rbc_idtext[e] == s) { mpz_set_ui(r, 1UL + e); return; } }
  if (rbc_idn >= RBC_IDMAX) { __vf_model_bound(); mpz_set_ui(r, 0UL); return; }
  rbc_idtext[rbc_idn] = new std::string(s); ++rbc_idn;
  mpz_set_ui(r, (unsigned long)rbc_idn);
}

// ---------------------------------------------------------------- network: in-memory mailboxes, one queue per directed link
// header fields (ID, j, s, action) and payloads are kept in separate small arrays so that symbolic payloads never make the
// header fields of other messages symbolic to the engine
#define NQ_CAP 8
#define NLINKS (H_N * H_N)
static long nq_hdr[NLINKS][NQ_CAP * 4]; static long nq_val[NLINKS][NQ_CAP]; static unsigned nq_head[NLINKS], nq_tail[NLINKS];
static unsigned long net_sent = 0, net_recv = 0;
static inline unsigned nq_len(unsigned from, unsigned to) { return nq_tail[from * H_N + to] - nq_head[from * H_N + to]; }
static void nq_push(unsigned from, unsigned to, long id, long j, long s, long act, long val) {
  unsigned q = from * H_N + to, p = nq_tail[q];
  if (p >= NQ_CAP) { __vf_model_bound(); return; }
  nq_hdr[q][p * 4 + 0] = id; nq_hdr[q][p * 4 + 1] = j; nq_hdr[q][p * 4 + 2] = s; nq_hdr[q][p * 4 + 3] = act; nq_val[q][p] = val;
  nq_tail[q] = p + 1; ++net_sent;
}
// scheduler: which link the next Receive of party `to` reads
//   NET_RR: first non-empty link, scanning from a per-party rotating start;  NET_LINK: the link set in net_link (false if empty)
enum { NET_RR = 0, NET_LINK = 1 };
static int net_mode = NET_RR; static unsigned net_link = 0; static unsigned net_rr[H_N];
static bool net_mute[H_N];        // messages sent to a muted party (the Byzantine one, played by the harness) are dropped
class Net : public aiounicast {
public:
  Net(size_t n_in, size_t j_in) : aiounicast(n_in, j_in, aio_scheduler_roundrobin, aio_timeout_very_long, false, false, false) {}
  bool Send(mpz_srcptr, const size_t, const time_t) { return false; }
  bool Receive(mpz_ptr, size_t&, const size_t, const time_t) { return false; }
  void Reset(const size_t, const bool) {}
  bool Send(const std::vector<mpz_srcptr> &m, const size_t i_in, const time_t) {
    if (m.size() != 5 || i_in >= H_N) return false;
    if (net_mute[i_in]) return true;
    nq_push((unsigned)j, (unsigned)i_in, vfh_val(m[0]), vfh_val(m[1]), vfh_val(m[2]), vfh_val(m[3]), vfh_val(m[4]));
    return true;
  }
  bool Receive(std::vector<mpz_ptr> &m, size_t &i_out, const size_t, const time_t) {
    if (m.size() != 5) return false;
    unsigned to = (unsigned)j, from = H_N;
    if (net_mode == NET_LINK) { if (nq_len(net_link, to) > 0) from = net_link; }
    else { for (unsigned k = 0; k < H_N; ++k) { unsigned f = (net_rr[to] + k) % H_N; if (nq_len(f, to) > 0) { from = f; break; } } if (from < H_N) net_rr[to] = (from + 1) % H_N; }
    if (from >= H_N) return false;
    unsigned q = from * H_N + to, p = nq_head[q];
    for (unsigned k = 0; k < 4; ++k) mpz_set_si(m[k], nq_hdr[q][p * 4 + k]);
    mpz_set_si(m[4], nq_val[q][p]);
    nq_head[q] = p + 1; ++net_recv; i_out = from;
    return true;
  }
};
static Net *net[H_N]; static CachinKursawePetzoldShoupRBC *rbc[H_N];
static void mkparties() {
  for (unsigned i = 0; i < H_N; ++i) { net[i] = new Net(H_N, i); rbc[i] = new CachinKursawePetzoldShoupRBC(H_N, H_T, i, net[i], aiounicast::aio_scheduler_roundrobin, 0); }
}
static unsigned long pending() { return net_sent - net_recv; }

// ---------------------------------------------------------------- 1. honest run
// one honest sender broadcasts a symbolic value; every party steps (one message per Deliver call, time-out 0) under a fixed
// schedule until no message is left; every party delivers exactly that value from that sender exactly once
#ifndef H_SENDER
#define H_SENDER 0
#endif
#ifndef H_SCHED
#define H_SCHED 0
#endif
#ifndef H_MAXSTEPS
#define H_MAXSTEPS (H_N * (1 + 2 * H_N) + 2 * H_N)
#endif
H_ENTRY(h_honest) {
  mkparties();
  long mv = vfh_range(-3, 200);
  Z m(mv);
  rbc[H_SENDER]->Broadcast(m);
  vf_assert(net_sent == H_N, "Broadcast sends one r-send per party");
  unsigned ndel[H_N]; for (unsigned i = 0; i < H_N; ++i) ndel[i] = 0;
  bool okval = true, oksender = true;
  unsigned idle = 0, p = (H_SCHED & 1) ? H_N - 1 : 0;
  for (unsigned step = 0; step < H_MAXSTEPS; ++step) {
    if (idle >= H_N) break;
    Z out(-7); size_t from = 99;
    unsigned long before = net_recv;
    bool got = rbc[p]->Deliver(out, from, aiounicast::aio_scheduler_roundrobin, 0);
    if (got) { ++ndel[p]; if (mpz_cmp(out, m) != 0) okval = false; if (from != H_SENDER) oksender = false; }
    if (net_recv == before) ++idle; else idle = 0;
    if (H_SCHED & 2) { if (net_recv == before) p = (H_SCHED & 1) ? (p + H_N - 1) % H_N : (p + 1) % H_N; }   // run one party until it has nothing to read
    else p = (H_SCHED & 1) ? (p + H_N - 1) % H_N : (p + 1) % H_N;                                           // strict rotation
  }
  vf_assert(pending() == 0, "quiescence reached within the step bound");
  vf_assert(okval, "every delivered value is the broadcast value");
  vf_assert(oksender, "every delivery names the broadcasting party");
  for (unsigned i = 0; i < H_N; ++i) vf_assert(ndel[i] == 1, "every party delivers exactly once");
  for (unsigned i = 0; i < H_N; ++i) {
    Z out(-7); size_t from = 99;
    vf_assert(!rbc[i]->Deliver(out, from, aiounicast::aio_scheduler_roundrobin, 0) && from == H_N, "a further Deliver returns nothing");
    for (unsigned k = 0; k < H_N; ++k) vf_assert(rbc[i]->buf_msg[k].size() == 0, "buf_msg stays empty");
  }
  H_END();
}
