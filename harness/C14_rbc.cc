// C14: reliable broadcast (CachinKursawePetzoldShoupRBC, Bracha/CKPS01 with FIFO extension) over a harness-owned aiounicast
//   the real Broadcast / Deliver / DeliverFrom / setID / unsetID code is driven; the network, the clock and the hash are harness stubs
#include "vfh_proto.hh"
#include "CachinKursawePetzoldShoupSEABP.hh"
#ifndef H_N
#define H_N 4
#endif
#ifndef H_T
#define H_T 1
#endif
extern "C" void __vf_model_bound(void);

// ---------------------------------------------------------------- clock: one second per call of time()
static long rbc_clock = 1000;
extern "C" long rbcstub_time(long *t) { long v = rbc_clock; rbc_clock += 1; if (t) *t = v; return v; }

// ---------------------------------------------------------------- coins
// Broadcast draws five machine words per recipient that are only used when simulate_faulty_behaviour is set (never here);
// Deliver permutes the scan order of buf_msg, a buffer that no code path ever fills (asserted empty in h_honest)
extern "C" unsigned long rbcstub_wrandom_ui(void) { return 0; }
extern "C" unsigned long rbcstub_wrandom_mod(unsigned long m) { return 0; }

// ---------------------------------------------------------------- hash
// tag = H(ID, j, s): fixed injective encoding of the triple (collision-free idealisation; keeps map keys concrete whenever the
//   triple is concrete).  Domain -1..6 per component, anything else is a model bound.
// digest = H(m): memoised function, collision-free.  While rbc_hash_symbolic is off a new argument gets the next concrete
//   digest (1,2,3..), so that a concrete message prefix builds concrete maps; switched on, a new argument gets an arbitrary
//   digest in [0, 2^H_DBITS) different from all digests handed out before.
// ID = H(text) (setID): texts numbered 1,2,3.. in order of first use (injective).
#define RBC_DMAX 6
// third mode (rbc_oracle_on): the harness predicts the argument of every payload-hash call (it is the one symbolic payload of the
// run) and fixes its digest to a concrete value; the stub asserts the prediction instead of branching on it, so a run with a
// symbolic payload keeps concrete map keys.  A wrong prediction is a failed assertion, never a silently wrong digest.
static bool rbc_hash_symbolic = false, rbc_oracle_on = false; static long rbc_oracle_val = 0, rbc_oracle_digest = 1;
static long rbc_dkey[RBC_DMAX]; static long rbc_dout[RBC_DMAX]; static unsigned rbc_dn = 0;
static long rbc_digest(long x) {
  if (rbc_oracle_on) { vf_assert(x == rbc_oracle_val, "payload hash is only applied to the broadcast payload (harness prediction)"); return rbc_oracle_digest; }
  for (unsigned e = 0; e < RBC_DMAX; ++e) { if (e >= rbc_dn) break; if (rbc_dkey[e] == x) return rbc_dout[e]; }
  if (rbc_dn >= RBC_DMAX) { __vf_model_bound(); return 0; }
  long o;
  if (rbc_hash_symbolic) {
    o = (long)vf_nondet_below(1UL << H_DBITS);
    for (unsigned e = 0; e < RBC_DMAX; ++e) { if (e >= rbc_dn) break; vf_assume(rbc_dout[e] != o); }
  } else o = 1 + (long)rbc_dn;
  rbc_dkey[rbc_dn] = x; rbc_dout[rbc_dn] = o; ++rbc_dn;
  return o;
}
static inline long rbc_tagval(long id, long j, long s) {
  if (id < -1 || id > 6 || j < -1 || j > 6 || s < -1 || s > 6) { __vf_model_bound(); return 0; }
  return 1 + (((id + 1) * 8 + (j + 1)) * 8 + (s + 1));
}
void rbcstub_shash_va(mpz_ptr r, size_t n, ...) {
  va_list ap; va_start(ap, n);
  if (n == 3) {
    mpz_srcptr a = va_arg(ap, mpz_srcptr), b = va_arg(ap, mpz_srcptr), c = va_arg(ap, mpz_srcptr);
    mpz_set_si(r, rbc_tagval(vfh_val(a), vfh_val(b), vfh_val(c)));
  } else if (n == 1) {
    mpz_srcptr a = va_arg(ap, mpz_srcptr);
    mpz_set_si(r, rbc_digest(vfh_val(a)));
  } else { __vf_model_bound(); mpz_set_ui(r, 0UL); }
  va_end(ap);
}
#define RBC_IDMAX 4
static std::string *rbc_idtext[RBC_IDMAX]; static unsigned rbc_idn = 0;
void rbcstub_shash_str(mpz_ptr r, const std::string &s) {
  for (unsigned e = 0; e < RBC_IDMAX; ++e) { if (e >= rbc_idn) break; if (*rbc_idtext[e] == s) { mpz_set_ui(r, 1UL + e); return; } }
  if (rbc_idn >= RBC_IDMAX) { __vf_model_bound(); mpz_set_ui(r, 0UL); return; }
  rbc_idtext[rbc_idn] = new std::string(s); ++rbc_idn;
  mpz_set_ui(r, (unsigned long)rbc_idn);
}

// ---------------------------------------------------------------- network: in-memory mailboxes, one queue per directed link
// header fields (ID, j, s, action) and payloads are kept in separate small arrays so that symbolic payloads never make the
// header fields of other messages symbolic to the engine
#define NQ_CAP 8
#define NLINKS (H_N * H_N)
static long nq_hdr[NLINKS][NQ_CAP * 4]; static long nq_val[NLINKS][NQ_CAP]; static unsigned nq_head[NLINKS], nq_tail[NLINKS];
static unsigned long net_sent = 0, net_recv = 0;
static inline unsigned nq_len(unsigned from, unsigned to) { return nq_tail[from * H_N + to] - nq_head[from * H_N + to]; }
static void nq_push(unsigned from, unsigned to, long id, long j, long s, long act, long val) {
  unsigned q = from * H_N + to, p = nq_tail[q];
  if (p >= NQ_CAP) { __vf_model_bound(); return; }
  nq_hdr[q][p * 4 + 0] = id; nq_hdr[q][p * 4 + 1] = j; nq_hdr[q][p * 4 + 2] = s; nq_hdr[q][p * 4 + 3] = act; nq_val[q][p] = val;
  nq_tail[q] = p + 1; ++net_sent;
}
// scheduler: which link the next Receive of party `to` reads
//   NET_RR: first non-empty link, scanning from a per-party rotating start;  NET_LINK: the link set in net_link (false if empty)
enum { NET_RR = 0, NET_LINK = 1 };
static int net_mode = NET_RR; static unsigned net_link = 0; static unsigned net_rr[H_N];
static bool net_mute[H_N];        // messages sent to a muted party (the Byzantine one, played by the harness) are dropped
class Net : public aiounicast {
public:
  Net(size_t n_in, size_t j_in) : aiounicast(n_in, j_in, aio_scheduler_roundrobin, aio_timeout_very_long, false, false, false) {}
  bool Send(mpz_srcptr, const size_t, const time_t) { return false; }
  bool Receive(mpz_ptr, size_t&, const size_t, const time_t) { return false; }
  void Reset(const size_t, const bool) {}
  bool Send(const std::vector<mpz_srcptr> &m, const size_t i_in, const time_t) {
    if (m.size() != 5 || i_in >= H_N) return false;
    if (net_mute[i_in]) return true;
    nq_push((unsigned)j, (unsigned)i_in, vfh_val(m[0]), vfh_val(m[1]), vfh_val(m[2]), vfh_val(m[3]), vfh_val(m[4]));
    return true;
  }
  bool Receive(std::vector<mpz_ptr> &m, size_t &i_out, const size_t, const time_t) {
    if (m.size() != 5) return false;
    unsigned to = (unsigned)j, from = H_N;
    if (net_mode == NET_LINK) { if (nq_len(net_link, to) > 0) from = net_link; }
    else { for (unsigned k = 0; k < H_N; ++k) { unsigned f = (net_rr[to] + k) % H_N; if (nq_len(f, to) > 0) { from = f; break; } } if (from < H_N) net_rr[to] = (from + 1) % H_N; }
    if (from >= H_N) return false;
    unsigned q = from * H_N + to, p = nq_head[q];
    for (unsigned k = 0; k < 4; ++k) mpz_set_si(m[k], nq_hdr[q][p * 4 + k]);
    mpz_set_si(m[4], nq_val[q][p]);
    nq_head[q] = p + 1; ++net_recv; i_out = from;
    return true;
  }
};
static Net *net[H_N]; static CachinKursawePetzoldShoupRBC *rbc[H_N];
static void mkparties() {
  for (unsigned i = 0; i < H_N; ++i) { net[i] = new Net(H_N, i); rbc[i] = new CachinKursawePetzoldShoupRBC(H_N, H_T, i, net[i], aiounicast::aio_scheduler_roundrobin, 0); }
}
static unsigned long pending() { return net_sent - net_recv; }

// ---------------------------------------------------------------- 1. honest run
// one honest sender broadcasts a symbolic value; every party steps (one message per Deliver call, time-out 0) under a fixed
// schedule until no message is left; every party delivers exactly that value from that sender exactly once
#ifndef H_SENDER
#define H_SENDER 0
#endif
#ifndef H_SCHED
#define H_SCHED 0
#endif
#ifndef H_MAXSTEPS
#define H_MAXSTEPS (H_N * (1 + 2 * H_N) + 2 * H_N)
#endif
H_ENTRY(h_honest) {
  mkparties();
  long mv = vfh_range(-3, 200);
  Z m(mv);
  rbc_oracle_on = true; rbc_oracle_val = mv; rbc_oracle_digest = 5;
  rbc[H_SENDER]->Broadcast(m);
  vf_assert(net_sent == H_N, "Broadcast sends one r-send per party");
  unsigned ndel[H_N]; for (unsigned i = 0; i < H_N; ++i) ndel[i] = 0;
  bool okval = true, oksender = true;
  unsigned idle = 0, p = (H_SCHED & 1) ? H_N - 1 : 0;
  for (unsigned step = 0; step < H_MAXSTEPS; ++step) {
    if (idle >= H_N) break;
    Z out(-7); size_t from = 99;
    unsigned long before = net_recv;
    bool got = rbc[p]->Deliver(out, from, aiounicast::aio_scheduler_roundrobin, 0);
    if (got) { ++ndel[p]; if (mpz_cmp(out, m) != 0) okval = false; if (from != H_SENDER) oksender = false; }
    if (net_recv == before) ++idle; else idle = 0;
    if (H_SCHED & 2) { if (net_recv == before) p = (H_SCHED & 1) ? (p + H_N - 1) % H_N : (p + 1) % H_N; }   // run one party until it has nothing to read
    else p = (H_SCHED & 1) ? (p + H_N - 1) % H_N : (p + 1) % H_N;                                           // strict rotation
  }
  vf_assert(pending() == 0, "quiescence reached within the step bound");
  vf_assert(okval, "every delivered value is the broadcast value");
  vf_assert(oksender, "every delivery names the broadcasting party");
  for (unsigned i = 0; i < H_N; ++i) vf_assert(ndel[i] == 1, "every party delivers exactly once");
  for (unsigned i = 0; i < H_N; ++i) {
    Z out(-7); size_t from = 99;
    vf_assert(!rbc[i]->Deliver(out, from, aiounicast::aio_scheduler_roundrobin, 0) && from == H_N, "a further Deliver returns nothing");
    for (unsigned k = 0; k < H_N; ++k) vf_assert(rbc[i]->buf_msg[k].size() == 0, "buf_msg stays empty");
  }
  H_END();
}

// ---------------------------------------------------------------- 2. single-step obligations: one real party (P1 of n=4, t=1)
// the other three parties are played by the harness: it puts messages on P1's incoming links and reads what P1 sent
#define ME 1u
#define A_SEND 1
#define A_ECHO 2
#define A_READY 3
#define A_REQUEST 4
#define A_ANSWER 5
static CachinKursawePetzoldShoupRBC *P = 0;
static void mkone() { net[ME] = new Net(H_N, ME); rbc[ME] = new CachinKursawePetzoldShoupRBC(H_N, H_T, ME, net[ME], aiounicast::aio_scheduler_roundrobin, 0); P = rbc[ME]; net_mode = NET_LINK; }
static void inject(unsigned from, long id, long j, long s, long act, long v) { nq_push(from, ME, id, j, s, act, v); }
static unsigned inbox() { unsigned c = 0; for (unsigned f = 0; f < H_N; ++f) c += nq_len(f, ME); return c; }
static long st_val; static size_t st_from;
static bool step(unsigned link) { net_link = link; Z out(-7); st_from = 99; bool g = P->Deliver(out, st_from, aiounicast::aio_scheduler_roundrobin, 0); st_val = out.get(); return g; }
static unsigned sent_to(unsigned to) { return nq_tail[ME * H_N + to]; }
static long sent_hdr(unsigned to, unsigned idx, unsigned f) { return nq_hdr[ME * H_N + to][idx * 4 + f]; }
static long sent_val(unsigned to, unsigned idx) { return nq_val[ME * H_N + to][idx]; }
static bool sent_all(unsigned cnt) { bool ok = true; for (unsigned k = 0; k < H_N; ++k) if (sent_to(k) != cnt) ok = false; return ok; }
// a complete quorum for slot (id, sender, s) with payload v whose digest is d: r-send on the sender's link, readys on three links
static void quorum(long id, long sender, long s, long v, long d, unsigned r0, unsigned r1, unsigned r2) {
  inject((unsigned)sender, id, sender, s, A_SEND, v);
  inject(r0, id, sender, s, A_READY, d); inject(r1, id, sender, s, A_READY, d); inject(r2, id, sender, s, A_READY, d);
}

// (a) r-send whose claimed originator is not the link it arrived on: no echo, nothing stored
// (b) first genuine r-send: echo H(m) to everybody; a second r-send for the same tag (same link or another link): ignored
H_ENTRY(h_step_send) {
  mkone(); rbc_hash_symbolic = true;
  long x = vfh_range(-2, 40), y = vfh_range(-2, 40);
  inject(2, 0, 0, 1, A_SEND, x);
  vf_assert(!step(2) && sent_all(0) && P->mbar.size() == 0, "r-send naming party 0 arriving from party 2: no echo, no payload stored");
  inject(2, 0, 3, 1, A_SEND, x);
  vf_assert(!step(2) && sent_all(0) && P->mbar.size() == 0, "r-send naming party 3 arriving from party 2: no echo, no payload stored");
  inject(2, 0, 2, 1, A_SEND, x);
  vf_assert(!step(2) && sent_all(1), "genuine r-send: one message to every party, no delivery");
  long dx = rbc_digest(x);
  for (unsigned k = 0; k < H_N; ++k)
    vf_assert(sent_hdr(k, 0, 0) == 0 && sent_hdr(k, 0, 1) == 2 && sent_hdr(k, 0, 2) == 1 && sent_hdr(k, 0, 3) == A_ECHO && sent_val(k, 0) == dx, "the message is the echo of the tag with the digest of the payload");
  vf_assert(P->mbar.size() == 1 && vfh_val(P->mbar.begin()->second) == x, "payload stored");
  inject(2, 0, 2, 1, A_SEND, y);
  vf_assert(!step(2) && sent_all(1) && vfh_val(P->mbar.begin()->second) == x, "second r-send for the tag from the same party: ignored");
  inject(3, 0, 2, 1, A_SEND, y);
  vf_assert(!step(3) && sent_all(1) && vfh_val(P->mbar.begin()->second) == x, "r-send for the tag relayed by another party: ignored");
  H_END();
}

// (c) ready counting: duplicates and readys for another digest do not count; own ready after t+1; delivery exactly at 2t+1
H_ENTRY(h_step_ready) {
  mkone();
  const long M = 10, DP = 9;
  inject(0, 0, 0, 1, A_SEND, M);
  vf_assert(!step(0) && sent_all(1), "r-send: echo, no delivery");
  long D = rbc_digest(M);
  inject(0, 0, 0, 1, A_ECHO, D); inject(2, 0, 0, 1, A_ECHO, D); inject(3, 0, 0, 1, A_ECHO, D);
  vf_assert(!step(0) && !step(2) && sent_all(1), "n-t-1 echoes: nothing");
  vf_assert(!step(3) && sent_all(2), "n-t echoes for one digest: own ready sent, no delivery");
  for (unsigned k = 0; k < H_N; ++k) vf_assert(sent_hdr(k, 1, 3) == A_READY && sent_val(k, 1) == D && sent_hdr(k, 1, 1) == 0 && sent_hdr(k, 1, 2) == 1, "own ready carries that digest");
  inject(0, 0, 0, 1, A_READY, D);  vf_assert(!step(0) && sent_all(2), "first ready: nothing");
  inject(0, 0, 0, 1, A_READY, D);  vf_assert(!step(0) && sent_all(2), "same ready again from the same party: nothing");
  inject(2, 0, 0, 1, A_READY, DP); vf_assert(!step(2) && sent_all(2), "ready for another digest: nothing");
  inject(2, 0, 0, 1, A_READY, D);  vf_assert(!step(2) && sent_all(2), "party 2 sends a second ready, now with the first digest: not counted");
  vf_assert(!step(1) && !step(1) && sent_all(2), "own echo and own ready (second distinct ready): no delivery, no second own ready");
#ifdef H_D3
  long d3 = (H_D3 == 0) ? D : (long)H_D3;          // slice: digest carried by the ready of the third distinct party
#else
  rbc_hash_symbolic = true;
  long d3 = vfh_range(-1, (1 << H_DBITS) + 1);
#endif
  inject(3, 0, 0, 1, A_READY, d3);
  bool g = step(3);
  vf_assert(g == (d3 == D), "third distinct party: delivery exactly if its ready carries the same digest");
  vf_assert(!g || (st_val == M && st_from == 0), "delivered value and sender");
  bool more = step(3);
  vf_assert(!more, "nothing further");
  H_END();
}

// (d) payload retrieval: the party stored m' from the r-send, the quorum agreed on the digest of m: r-request goes out, an
// r-answer is accepted exactly if it hashes to the agreed digest, the delivered value is m (not m'), no second delivery
#ifndef H_NOFIFO
#define H_NOFIFO 0
#endif
H_ENTRY(h_step_answer) {
  mkone();
  long id = 0;
  if (H_NOFIFO) { P->setID("a", false); id = vfh_val(P->ID); }
  const long M = 10, MP = 11;
  long dM = rbc_digest(M);
  inject(0, id, 0, 1, A_SEND, MP);
  vf_assert(!step(0) && sent_all(1), "r-send with m': echo");
  inject(0, id, 0, 1, A_READY, dM); inject(2, id, 0, 1, A_READY, dM); inject(3, id, 0, 1, A_READY, dM);
  vf_assert(!step(0) && sent_all(1), "ready 1");
  vf_assert(!step(2) && sent_all(2), "ready 2: own ready");
  vf_assert(!step(3), "2t+1 readys for H(m) while m' is stored: no delivery yet");
  vf_assert(sent_to(0) == 3 && sent_to(1) == 3 && sent_to(2) == 3 && sent_to(3) == 2, "r-request sent to 2t+1 parties");
  vf_assert(sent_hdr(2, 2, 3) == A_REQUEST && sent_hdr(2, 2, 1) == 0 && sent_hdr(2, 2, 2) == 1, "it is the request for this tag");
#ifdef H_X
  long x = H_X;                                    // slice: payload of the first r-answer
#else
  rbc_hash_symbolic = true;
  long x = vfh_range(-2, 40);
#endif
  inject(2, id, 0, 1, A_ANSWER, x);
  bool g = step(2);
  vf_assert(g == (x == M), "r-answer accepted exactly if its payload hashes to the agreed digest");
  vf_assert(!g || (st_val == M && st_from == 0), "the delivered value is the payload of the agreed digest, not the one received by r-send");
  vf_assert(g || vfh_val(P->mbar.begin()->second) == MP, "a refused answer leaves the stored payload alone");
  bool g2 = false;
  if (!g) { inject(3, id, 0, 1, A_ANSWER, M); g2 = step(3); }
  vf_assert(g || (g2 && st_val == M && st_from == 0), "a later correct answer from another party is accepted and delivers m");
  inject(0, id, 0, 1, A_ANSWER, M);
  bool again = step(0);
  vf_assert(!again, "a further correct answer does not deliver the slot a second time");
  bool more = step(0);
  vf_assert(!more, "nothing further");
  H_END();
}

// (e) channels: a complete quorum carrying another channel id is not delivered into the current channel, the same slot numbers
// in the current channel are delivered with their own payload, the foreign one is delivered after switching back
H_ENTRY(h_step_chan) {
  mkone();
  P->setID("sub");
  long id1 = vfh_val(P->ID);
  vf_assert(id1 != 0, "new channel id");
  long D10 = rbc_digest(10), D20 = rbc_digest(20);
  quorum(0, 0, 1, 10, D10, 0, 2, 3);
  vf_assert(!step(0) && !step(0) && !step(2) && !step(3) && !step(0), "complete quorum of the outer channel: nothing delivered inside the sub-channel");
  quorum(id1, 0, 1, 20, D20, 0, 2, 3);
  vf_assert(!step(0) && !step(0) && !step(2), "sub-channel slot: not yet");
  vf_assert(step(3) && st_val == 20 && st_from == 0, "sub-channel slot delivered with its own payload");
  vf_assert(!step(0), "nothing further in the sub-channel");
  P->unsetID();
  vf_assert(vfh_val(P->ID) == 0, "back in the outer channel");
  vf_assert(step(0) && st_val == 10 && st_from == 0, "the outer-channel slot is delivered after switching back");
  vf_assert(!step(0), "once");
  H_END();
}

// (f) FIFO: slot 2 of a sender acknowledged before slot 1 is held back and delivered right after slot 1
H_ENTRY(h_step_fifo) {
  mkone();
  long D10 = rbc_digest(10), D20 = rbc_digest(20);
  quorum(0, 0, 2, 20, D20, 0, 2, 3);
  vf_assert(!step(0) && !step(0) && !step(2) && !step(3), "slot 2 acknowledged first: not delivered");
  vf_assert(P->deliver_buf.size() == 1, "held in the deliver buffer");
  vf_assert(!step(0) && !step(0), "still not delivered (the out-of-order handler asks the others for slot 1)");
  quorum(0, 0, 1, 10, D10, 0, 2, 3);
  vf_assert(!step(0) && !step(0) && !step(2), "slot 1: not yet");
  vf_assert(step(3) && st_val == 10 && st_from == 0, "slot 1 delivered first");
  vf_assert(step(0) && st_val == 20 && st_from == 0, "slot 2 delivered next, without any further message");
  vf_assert(!step(0) && P->deliver_buf.size() == 0, "nothing further");
  H_END();
}

// (g) DeliverFrom: values of other senders are kept for later calls; a value kept in one channel is not handed out in another
H_ENTRY(h_step_dfrom) {
  mkone(); net_mode = NET_RR;
  long D10 = rbc_digest(10);
  quorum(0, 0, 1, 10, D10, 0, 2, 3);
  Z out(-7);
  bool g = P->DeliverFrom(out, 2, aiounicast::aio_scheduler_roundrobin, 30);
  vf_assert(!g && inbox() == 0, "asking for party 2: all messages processed, nothing from party 2");
  vf_assert(P->buf_mpz[0].size() == 1 && P->buf_mpz[2].size() == 0, "the value of party 0 is kept for a later call");
  P->setID("sub");
  g = P->DeliverFrom(out, 0, aiounicast::aio_scheduler_roundrobin, 4);
  vf_assert(!g, "inside the sub-channel the value kept in the outer channel is not handed out");
  P->unsetID();
  g = P->DeliverFrom(out, 0, aiounicast::aio_scheduler_roundrobin, 4);
  vf_assert(g && out.get() == 10, "back in the outer channel it is");
  g = P->DeliverFrom(out, 0, aiounicast::aio_scheduler_roundrobin, 4);
  vf_assert(!g, "once");
  H_END();
}
// progress of DeliverFrom (candidate F5): a value of party 0 kept from the outer channel is still buffered when the caller, now
// inside a sub-channel, asks for party 0; the wire holds a complete sub-channel broadcast of party 0
H_ENTRY(h_dfrom_progress) {
  mkone(); net_mode = NET_RR;
  long D10 = rbc_digest(10), D30 = rbc_digest(30);
  quorum(0, 0, 1, 10, D10, 0, 2, 3);
  Z out(-7);
  bool g = P->DeliverFrom(out, 2, aiounicast::aio_scheduler_roundrobin, 30);
  vf_assert(!g && inbox() == 0 && P->buf_mpz[0].size() == 1, "pre-state: value of party 0 kept from the outer channel");
  P->setID("sub");
  long id1 = vfh_val(P->ID);
  quorum(id1, 0, 1, 30, D30, 0, 2, 3);
  g = P->DeliverFrom(out, 0, aiounicast::aio_scheduler_roundrobin, 30);
  vf_assert(inbox() == 0, "DeliverFrom processes the messages on the wire");
  vf_assert(g && out.get() == 30, "DeliverFrom returns the sub-channel broadcast of party 0 whose messages have all been handed over");
  H_END();
}
