# shuffle.py - stack-level harnesses: mixing (C02), Groth shuffle argument, Hoogh et al. rotation argument, cut-and-choose (C03/C04/C05)
import math as _math
SH_TU = ['SchindelhauerTMCG.cc', 'BarnettSmartVTMF_dlog.cc', 'VTMF_Card.cc', 'VTMF_CardSecret.cc', 'TMCG_CardSecret.cc', 'TMCG_Card.cc', 'TMCG_PublicKey.cc',
         'mpz_spowm.cc', 'mpz_sprime.cc']
SH_CFG = {'TMCG_MAX_FPOWM_T': 8, 'TMCG_MAX_PLAYERS': 4, 'TMCG_MAX_TYPEBITS': 3, 'TMCG_MAX_CARDS': 4}
SH_REPLACE = dict(PROTO_REPLACE)
SH_REPLACE.update(RMOD)
SH_REPLACE.update({
  'tmcg_mpz_shash(__mpz_struct*, unsigned long, ...)': 'vfs_shash_va(__mpz_struct*, unsigned long, ...)',
  'tmcg_mpz_shash(__mpz_struct*, std::string const&)': 'vfs_shash_str(__mpz_struct*, std::string const&)',
  'tmcg_mpz_shash_1vec': 'vfs_shash_1vec', 'tmcg_mpz_shash_2vec': 'vfs_shash_2vec', 'tmcg_mpz_shash_4vec': 'vfs_shash_4vec',
  'tmcg_mpz_shash_2pairvec': 'vfs_shash_2pairvec', 'tmcg_mpz_shash_2pairvec2vec': 'vfs_shash_2pairvec2vec', 'tmcg_mpz_shash_4pairvec2vec': 'vfs_shash_4pairvec2vec',
  'tmcg_mpz_srandomb': 'vfs_randomb', 'tmcg_mpz_ssrandomb': 'vfs_randomb', 'tmcg_mpz_wrandomb': 'vfs_randomb',
  'JareckiLysyanskayaEDCF::Flip_twoparty': 'vfs_flip'})
SH_ASSUME = PROTO_ASSUME + ['hash keys hold every argument (up to 44 integers per call; more is a model bound)']
# per-loop bounds known in advance (saves witness rounds; a bound that is too small is still detected and raised): exception-message
# strings, the oracle tables of vfh_shuffle.hh (concrete loops; the nested one counts q*q+1 <= 122 back edges), the power tables (TMCG_MAX_FPOWM_T + 1).
# The default bound (unwind=4) covers the loops over the bits of an exponent below q < 8; every symbolically bounded loop is
# unrolled 'unwind' times, so this number drives the solver time (unwind 12 -> 4: 135 s -> 30 s per query for a 3-card mix).
SH_UW = {'_ZNSt11char_traitsIcE6lengthEPKc.0': 64, '_ZNSs6appendEPKcm.1': 64, '_ZL10vfs_tableslll.0': 130, '_ZL10vfs_tableslll.1': 130,
         '_ZL10vfs_tableslll.2': 130, '_ZL10vfs_tableslll.3': 130, '_ZL10vfs_tableslll.4': 130, '_Z19tmcg_mpz_fpowm_initPA1_12__mpz_struct.1': 10,
         '_Z19tmcg_mpz_fpowm_initPA1_12__mpz_struct.0': 10}
# loops of the harness-side helpers (vfh_shuffle.hh and the entry functions): all have concrete trip counts (hash-key lengths up to 44,
# transcripts up to 37 tokens), so a generous bound costs nothing
for _fn in ('_Z12vfs_shash_vaP12__mpz_structmz', '_Z14vfs_shash_1vecP12__mpz_structRKSt6vectorIS0_SaIS0_EEmz', '_Z14vfs_shash_2vecP12__mpz_structRKSt6vectorIS0_SaIS0_EES5_mz',
            '_Z14vfs_shash_4vecP12__mpz_structRKSt6vectorIS0_SaIS0_EES5_S5_S5_mz', '_Z18vfs_shash_2pairvecP12__mpz_structRKSt6vectorISt4pairIS0_S0_ESaIS3_EES7_mz',
            '_Z22vfs_shash_2pairvec2vecP12__mpz_structRKSt6vectorISt4pairIS0_S0_ESaIS3_EES7_RKS1_IS0_SaIS0_EESB_mz',
            '_Z22vfs_shash_4pairvec2vecP12__mpz_structRKSt6vectorISt4pairIS0_S0_ESaIS3_EES7_S7_S7_RKS1_IS0_SaIS0_EESB_mz', '_Z13vfs_shash_strP12__mpz_structRKSs',
            '_ZL10vfs_digestP12__mpz_structjPKl', '_ZL13vfs_push_pvecPlRjRKSt6vectorISt4pairIP12__mpz_structS4_ESaIS5_EE', '_ZL12vfs_push_vecPlRjRKSt6vectorIP12__mpz_structSaIS3_EE',
            '_ZL5slurpRSt18basic_stringstreamIcSt11char_traitsIcESaIcEEPlj',
            'h_mix_vtmf', 'h_mix_created', 'h_glue_vtmf', 'h_skc_fprime_tamper'):
    for _i in range(9): SH_UW['%s.%d' % (_fn, _i)] = 50
def _perms(n): return [{'H_N': n, 'H_PERM': i} for i in range(_math.factorial(n))]
def _g(p, q, g, k, **kw): d = GRP(p, q, g, k); d.update(kw); return d

# ------------------------------------------------------------------ C02: mixing a stack
PROTO('C02', 'mix_vtmf', 'C02_mix.cc', 'h_mix_vtmf', 'TMCG_MixStack<VTMF_Card>: same size, output card i == re-encryption of input card pi[i] (c_1*g^r, c_2*h^r), opens to the same message',
      'key x, every card component (arbitrary group elements), every masking exponent in [0,q), timing flag; permutation enumerated by slices',
      tu=SH_TU, config=SH_CFG, replace=SH_REPLACE, assumptions=SH_ASSUME, unwind=4, unwindset=SH_UW,
      groups=[_g(11, 5, 3, 2, **s) for s in _perms(2)],
      groupsT=[_g(11, 5, 3, 2, **s) for s in _perms(2)] + [_g(7, 3, 2, 2, H_TAP=t, **s) for s in _perms(3) for t in (0, 1)], timeout=3000,
      bounds='n = 2 cards in p=11,q=5 (quick); thorough adds n = 3 in p=7,q=3 (all 6 permutations, timing flag by slice); one query per permutation; TMCG_MAX_CARDS = 4')
PROTO('C02', 'mix_created', 'C02_mix.cc', 'h_mix_created', 'TMCG_CreateStackSecret (permutation / rotation) + TMCG_MixStack: bijective indices, exponents in [2,q), rotation by the returned offset, multiset of opened messages preserved',
      'key x, every card component, all permutation / rotation draws, all masking-exponent coins',
      tu=SH_TU, config=SH_CFG, replace=SH_REPLACE, assumptions=SH_ASSUME + ['bounded sampler tmcg_mpz_srandom_mod replaced by its contract (value in [0,m)); at most H_MAXDRAWS coin draws (rejection loop of MaskingValue)'], unwind=4, unwindset=SH_UW,
      groups=[_g(7, 3, 2, 2, H_N=n, H_CYCLIC=c) for n in (2, 3) for c in (0, 1)], timeout=3000, in_tiers=('thorough',),
      bounds='n = 2, 3 cards, p=7,q=3; cyclic flag by slices; at most 12 coin draws; thorough tier only (about 16 min per slice on a loaded machine)')
PROTO('C02', 'glue_vtmf', 'C02_mix.cc', 'h_glue_vtmf', 'TMCG_GlueStackSecret<VTMF>: MixStack(s, Glue(sigma, pi)) == MixStack(MixStack(s, sigma), pi); glued indices are a bijection',
      'key x, every card component, all exponents of both secrets; both permutations enumerated by slices',
      tu=SH_TU, config=SH_CFG, replace=SH_REPLACE, assumptions=SH_ASSUME, unwind=4, unwindset=SH_UW,
      groups=[_g(7, 3, 2, 2, H_N=2, H_PERM=a, H_PERM2=b) for a in range(2) for b in range(2)], timeout=3000, in_tiers=('thorough',),
      bounds='n = 2, p=7,q=3, all 4 pairs of permutations; thorough tier only (about 13 min per slice on a loaded machine)')

# The harnesses for the Groth shuffle argument (C03_vsshe.cc), the rotation argument (C03_vrhe.cc) and the cut-and-choose proofs
# (C04_cutchoose.cc), including the concrete-vector SKC tamper entry C05_skc_fprime_tamper_cv, are NOT registered: none of them closed within the available time on the loaded machine (witness rounds of
# 13-17 min each, see notes/shuffle.md, which also holds the index entries that were prepared for them).
