# shuffle.py - stack-level harnesses: mixing (C02), Groth shuffle argument, Hoogh et al. rotation argument, cut-and-choose (C03/C04/C05)
import math as _math
SH_TU = ['SchindelhauerTMCG.cc', 'BarnettSmartVTMF_dlog.cc', 'VTMF_Card.cc', 'VTMF_CardSecret.cc', 'TMCG_CardSecret.cc', 'TMCG_Card.cc', 'TMCG_PublicKey.cc',
         'mpz_spowm.cc', 'mpz_sprime.cc']
SH_CFG = {'TMCG_MAX_FPOWM_T': 8, 'TMCG_MAX_PLAYERS': 4, 'TMCG_MAX_TYPEBITS': 3, 'TMCG_MAX_CARDS': 4}
SH_REPLACE = dict(PROTO_REPLACE)
SH_REPLACE.update(RMOD)
SH_REPLACE.update({
  'tmcg_mpz_shash(__mpz_struct*, unsigned long, ...)': 'vfs_shash_va(__mpz_struct*, unsigned long, ...)',
  'tmcg_mpz_shash(__mpz_struct*, std::string const&)': 'vfs_shash_str(__mpz_struct*, std::string const&)',
  'tmcg_mpz_shash_1vec': 'vfs_shash_1vec', 'tmcg_mpz_shash_2vec': 'vfs_shash_2vec', 'tmcg_mpz_shash_4vec': 'vfs_shash_4vec',
  'tmcg_mpz_shash_2pairvec': 'vfs_shash_2pairvec', 'tmcg_mpz_shash_2pairvec2vec': 'vfs_shash_2pairvec2vec', 'tmcg_mpz_shash_4pairvec2vec': 'vfs_shash_4pairvec2vec',
  'tmcg_mpz_srandomb': 'vfs_randomb', 'tmcg_mpz_ssrandomb': 'vfs_randomb', 'tmcg_mpz_wrandomb': 'vfs_randomb',
  'JareckiLysyanskayaEDCF::Flip_twoparty': 'vfs_flip'})
SH_ASSUME = PROTO_ASSUME + ['hash keys hold every argument (up to 44 integers per call; more is a model bound)']
SH_UW = {'_ZNSt11char_traitsIcE6lengthEPKc.0': 64, '_ZNSs6appendEPKcm.1': 64}   # exception-message strings
def _perms(n): return [{'H_N': n, 'H_PERM': i} for i in range(_math.factorial(n))]
def _g(p, q, g, k, **kw): d = GRP(p, q, g, k); d.update(kw); return d

# ------------------------------------------------------------------ C02: mixing a stack
PROTO('C02', 'mix_vtmf', 'C02_mix.cc', 'h_mix_vtmf', 'TMCG_MixStack<VTMF_Card>: same size, output card i == re-encryption of input card pi[i] (c_1*g^r, c_2*h^r), opens to the same message',
      'key x, every card component (arbitrary group elements), every masking exponent in [0,q), timing flag; permutation enumerated by slices',
      tu=SH_TU, config=SH_CFG, replace=SH_REPLACE, assumptions=SH_ASSUME, unwind=12, unwindset=SH_UW,
      groups=[_g(11, 5, 3, 2, **s) for s in _perms(2)] + [_g(7, 3, 2, 2, **s) for s in _perms(3)],
      groupsT=[_g(11, 5, 3, 2, **s) for s in _perms(2) + _perms(3)] + [_g(7, 3, 2, 2, **s) for s in _perms(3)] + [_g(23, 11, 2, 2, **s) for s in _perms(2)],
      bounds='n = 2 cards in p=11,q=5 and n = 3 in p=7,q=3 (quick); thorough adds n = 3 in p=11 and n = 2 in p=23,q=11; one query per permutation; TMCG_MAX_CARDS = 4')
PROTO('C02', 'mix_created', 'C02_mix.cc', 'h_mix_created', 'TMCG_CreateStackSecret (permutation / rotation) + TMCG_MixStack: bijective indices, exponents in [2,q), rotation by the returned offset, multiset of opened messages preserved',
      'key x, every card component, all permutation / rotation draws, all masking-exponent coins',
      tu=SH_TU, config=SH_CFG, replace=SH_REPLACE, assumptions=SH_ASSUME + ['bounded sampler tmcg_mpz_srandom_mod replaced by its contract (value in [0,m)); at most H_MAXDRAWS coin draws (rejection loop of MaskingValue)'], unwind=12, unwindset=SH_UW,
      groups=[_g(7, 3, 2, 2, H_N=n, H_CYCLIC=c) for n in (2, 3) for c in (0, 1)],
      groupsT=[_g(7, 3, 2, 2, H_N=n, H_CYCLIC=c) for n in (2, 3) for c in (0, 1)] + [_g(11, 5, 3, 2, H_N=2, H_CYCLIC=c) for c in (0, 1)],
      bounds='n = 2, 3 cards, p=7,q=3 (quick) / adds n = 2 in p=11,q=5 (thorough); cyclic flag by slices; at most 12 coin draws')
PROTO('C02', 'glue_vtmf', 'C02_mix.cc', 'h_glue_vtmf', 'TMCG_GlueStackSecret<VTMF>: MixStack(s, Glue(sigma, pi)) == MixStack(MixStack(s, sigma), pi); glued indices are a bijection',
      'key x, every card component, all exponents of both secrets; both permutations enumerated by slices',
      tu=SH_TU, config=SH_CFG, replace=SH_REPLACE, assumptions=SH_ASSUME, unwind=12, unwindset=SH_UW,
      groups=[_g(7, 3, 2, 2, H_N=2, H_PERM=a, H_PERM2=b) for a in range(2) for b in range(2)],
      groupsT=[_g(7, 3, 2, 2, H_N=3, H_PERM=a, H_PERM2=b) for a in range(6) for b in range(6)] + [_g(11, 5, 3, 2, H_N=2, H_PERM=a, H_PERM2=b) for a in range(2) for b in range(2)],
      bounds='n = 2, p=7,q=3, all 4 pairs of permutations (quick); n = 3 all 36 pairs and n = 2 in p=11 (thorough)')
