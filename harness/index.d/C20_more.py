H(id='C20_key_validity', property='C20', src='C20_validity.cc', entry='h_key_validity', tu=PGP, unwind=8, models=GCRY_MODELS,
  desc='TMCG_OpenPGP_Pubkey/Subkey::CheckValidity == specification (expiry, > 25 h in the future, binding signature older than the subkey); expired flag', symbolic='creation, expiration, binding time (all 32-bit values), current time (any), key kind',
  bounds='full 32-bit time fields', assumptions=['time() returns an arbitrary instant'])
H(id='C20_key_validity_period', property='C20', src='C20_validity.cc', entry='h_key_validity_period', tu=PGP, unwind=8, models=GCRY_MODELS,
  desc='TMCG_OpenPGP_Pubkey/Subkey::CheckValidityPeriod == creation <= at <= creation + expiration', symbolic='creation, expiration (32-bit), instant at (41 bits), key kind', bounds='full 32-bit time fields')
