H(id='C09_gcry_conv', property='C09', src='C09_arith.cc', entry='h_gcry_conv', tu=['mpz_helper.cc'], unwind=12, replace=COIN, models=GCRY_MODELS, backend='kissat', timeout=1800, config={'TMCG_MAX_VALUE_CHARS': 16},
  defines={'VF_BITS': 26, 'H_W': 4, 'H_MAXDRAWS': 2, 'H_GCRYCONV': 1, 'H_CONVBITS': 8, 'MINISTL_STREAM_CAP': 64},
  desc='tmcg_mpz_get_gcry_mpi / tmcg_mpz_set_gcry_mpi / tmcg_get_gcry_mpi_ui: conversion between the two big-number back ends is lossless (hex text, buffer sizes)',
  symbolic='every non-negative integer below 2^8', bounds='values < 2^8 (quick) / 2^12 (thorough); TMCG_MAX_VALUE_CHARS shrunk to 16', assumptions=['libgcrypt MPI scan/print (HEX) replaced by models/gcry_model.c written from mpicoder.c'],
  tiers={'thorough': {'defines': {'VF_BITS': 26, 'H_W': 4, 'H_MAXDRAWS': 2, 'H_GCRYCONV': 1, 'H_CONVBITS': 12, 'MINISTL_STREAM_CAP': 64}, 'timeout': 3000}})
C09('fpowm_alias', 'h_fpowm_alias', 'tmcg_mpz_fpowm / tmcg_mpz_fspowm with the result aliasing the exponent (as in the share checks of PedersenVSS, RVSS, DKG) == plain power, either sign', 'p, m, x with |x| < 2^T, variant')
