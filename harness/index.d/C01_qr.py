# C01: quadratic-residue encoding with real arithmetic over toy Blum moduli
for _priv in (0, 1):
    H(id='C01_qr_open' + ('_private' if _priv else ''), property='C01', src='C01_card.cc', entry='h_qr_open',
      tu=['SchindelhauerTMCG.cc', 'TMCG_CardSecret.cc', 'TMCG_PublicKey.cc', 'TMCG_Card.cc', 'mpz_sqrtm.cc'], unwind=8, timeout=1800, replace=PROTO_REPLACE,
      defines=dict({'VF_BITS': 12, 'H_MAXDRAWS': 24, 'H_DBITS': 4, 'MINISTL_STREAM_CAP': 128, 'H_COINS_UNITS': 1}, **({'H_PRIVATE': 1} if _priv else {})),
      config={'TMCG_MAX_FPOWM_T': 8, 'TMCG_MAX_PLAYERS': 4, 'TMCG_MAX_TYPEBITS': 3},
      desc='quadratic-residue encoding, 2 players, moduli 21 and 33: %s card of type T, masked by player 0 then player 1, decodes (each row by its owner\'s factors, rows XORed) to T' % ('privately created' if _priv else 'open'),
      symbolic='type, all masking values r (units) and masking bits of both card secrets, timing flag', bounds='k = 2 players, w = 1 type bit (quick) / 2 (thorough); moduli 21 = 3*7 (y=5) and 33 = 3*11 (y=2)',
      assumptions=PROTO_ASSUME + ['rejection sampling of units succeeds at the first draw (coin assumed coprime to the modulus)'],
      slices=[{'H_QRW': 1}], tiers={'thorough': {'slices': [{'H_QRW': 1}, {'H_QRW': 2}], 'timeout': 3000}}, backend='kissat', memgb=6)
