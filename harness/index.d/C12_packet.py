# the top-level packet parser, one query per packet tag (the tag octet is concrete, everything after it symbolic)
_T_ALL = (1, 3, 4, 6, 8, 9, 10, 11, 13, 14, 17, 18, 19, 20)        # tags 2, 5, 7 (signature, secret key): no verdict in 15 min even at 4 octets
H(id='C12_pgp_packetdecode', property='C12', src='C12_openpgp.cc', entry='h_packet_decode', tu=PGP, unwind=10, defines={'H_MAXLEN': 16}, full_checks=True, models=GCRY_MODELS, timeout=1800,
  desc='arbitrary bytes into PacketDecode (new-format header, length forms, dispatch into the tag decoder): no out-of-bounds access, invalid iterator range, assert/abort, non-standard exception',
  symbolic='every byte string of the slice length behind the fixed tag octet', bounds='4 octets (quick: tags 1,3,4,8,9,11,13,19) / 4 and 7 octets (thorough: tags %s); signature and secret-key packets (tags 2,5,7) not covered' % (_T_ALL,),
  assumptions=['libgcrypt MPI functions replaced by models/gcry_model.c'],
  slices=[{'H_LEN': 4, 'H_TAGBYTE': 0xC0 | t} for t in (1, 3, 4, 8, 9, 11, 13, 19)],
  tiers={'thorough': {'slices': [{'H_LEN': n, 'H_TAGBYTE': 0xC0 | t} for t in _T_ALL for n in (4, 7)], 'timeout': 3000}})
