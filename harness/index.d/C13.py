# C13: point-to-point channels (aiounicast_select) over the in-memory wire of models/aio_model.c
# Quick tier = scripted fragmentation: the split points of the first two reads are enumerated by slices (every query is concrete,
# CBMC decides it by constant propagation); symbolic split points (H_FRAG > 0) do not fit the budget, see harness/notes/C13.md.
AIO_MODELS = ['gmp_model.c', 'aio_model.c']
AIO_TU = ['aiounicast_select.cc', 'mpz_helper.cc']
AIO_ASSUME = ['read/write/select/fcntl/errno/perror/strnlen/gmtime_r replaced by models/aio_model.c: file descriptor k is an in-memory byte queue; the first two successful reads deliver H_S1 / H_S2 bytes (enumerated), later reads everything pending; select reports readable iff bytes are pending; write accepts everything',
              'time(): concrete clock, one tick per call (VF_AIO_STEP_CLOCK); Receive is called with timeout 0 (one scheduler pass = two rounds per call), Send with 1 s',
              'two parties (n = 2), scheduler "direct"; TMCG_MAX_VALUE_CHARS (reassembly buffer) and TMCG_AIO_HIDE_SIZE shrunk to the stated sizes',
              'libgcrypt MAC/KDF/cipher/nonce replaced by models/aio_model.c: ideal MAC (2-byte tags, fixed injective tag assignment, a message never tagged under the key is refused), injective KDF, every cipher mode as a synchronous stream cipher with a fixed keystream per (key, IV), fixed pairwise different nonces; maclen = keylen = blklen = 2',
              'tmcg_mpz_wrandom_mod (random scheduler, unused) replaced by an arbitrary value in range']
_S = '_ZN17aiounicast_select4SendEPK12__mpz_structml.'; _R = '_ZN17aiounicast_select7ReceiveEP12__mpz_structRmml.'
# starting points for loops with constant trip counts (FD_ZERO = 16 words, 4 pipes, bit length); too small a bound is still detected and raised
AIO_UNWIND = {_S + '2': 17, _S + '4': 17, _S + '6': 17, _R + '17': 17, 'select.0': 5, 'bitlen.0': 36, 'gcry_kdf_derive.4': 13}
def AIO(name, entry, desc, symbolic, bounds, auth=0, enc=0, chunked=0, bufsz=16, vbits=34, hide=6, defines=None, assumptions=None, **kw):
    d = {'VF_AIO_STEP_CLOCK': 1, 'VF_AIO_TAG_CONCRETE': 1, 'VF_AIO_NONCE_CONCRETE': 1, 'VF_AIO_KS_CONCRETE': 1,
         'VF_BITS': vbits, 'H_AUTH': auth, 'H_ENC': enc, 'H_CHUNKED': chunked, 'MINISTL_STREAM_CAP': 32}
    d.update(defines or {})
    cfg = {'TMCG_MAX_VALUE_CHARS': '%dUL' % bufsz, 'TMCG_AIO_HIDE_SIZE': hide}
    cfg.update(kw.pop('config', {}))
    H(id='C13_' + name, property='C13', src='C13_aio.cc', entry=entry, tu=AIO_TU, unwind=kw.pop('unwind', 6), models=AIO_MODELS, defines=d, config=cfg, noinline=True,
      timeout=kw.pop('timeout', 1200), unwindset=dict(AIO_UNWIND, **kw.pop('unwindset', {})),
      desc=desc, symbolic=symbolic, bounds=bounds + '; reassembly buffer %d bytes; integers < 2^34; hide offset 2^%d' % (bufsz, hide), assumptions=AIO_ASSUME + (assumptions or []), **kw)

AIO('plain_fragment', 'h_fragment', 'no authentication, no encryption: integers 0 and 61 ("0\\n" "z\\n" on the wire) sent, received through fragmented / coalesced reads: each delivered exactly once, unchanged, in order; wire and buffer empty afterwards; a further Receive delivers nothing',
    'first read delivers 1, 2, 3 bytes or everything (one query each)', '2 messages, 4 wire bytes, every position of the first split',
    defines={'H_NMSG': 2, 'H_CALLS': 4, 'H_V1': 0, 'H_V2': 61}, slices=[{'H_S1': k} for k in (1, 2, 3, 0)])
AIO('auth_fragment', 'h_fragment', 'authentication on: frames "0\\n"+tag, "z\\n"+tag; first read ends before the newline / inside the tag / at the frame end / inside the second frame / nowhere: each integer delivered exactly once, unchanged, in order',
    'first read delivers 1, 3, 4, 7 bytes or everything (one query each)', '2 messages, 8 wire bytes', auth=1,
    defines={'H_NMSG': 2, 'H_CALLS': 4, 'H_V1': 0, 'H_V2': 61}, slices=[{'H_S1': 3}], in_tiers=('thorough',), timeout=1500)   # other split points (1, 4, 7, 0) not run to completion: add when measured
# NOT REGISTERED (never run to completion before the deadline; entry h_wire_edit exists in C13_aio.cc):
# AIO('auth_tamper', 'h_wire_edit', 'authentication on, the wire is edited before delivery: one byte changed (digit, newline, tag byte of the first frame; digit of the second), first frame removed, first frame replayed, frames swapped: what is delivered is a prefix of what was sent; a modified / replayed / out-of-order frame is never delivered',
#     'edit kind and position enumerated (one query each)', '2 messages; single-byte edits by XOR 1', auth=1,
#     defines={'H_CALLS': 4, 'H_V1': 0, 'H_V2': 61},
#     slices=[{'H_EDIT': 1, 'H_POS': p} for p in (0, 1, 3, 4)] + [{'H_EDIT': e} for e in (3, 4, 5)])
# NOT REGISTERED: catches the seeded change C13a (VIOLATION, natively reproduced, 876 s) but on the unchanged tree the slice H_S1=1 ran into
# the 500 s per-run timeout in a loop-bound deepening round at load 30 (1096 s in total) - enable with timeout=1500, in_tiers=('thorough',)
# once it has been seen to hold on a quieter machine:
# AIO('enc_fragment', 'h_fragment', 'authentication and encryption on (stream mode): IV, then two encrypted frames; the first read ends inside the IV / exactly after it / inside the first frame / nowhere: the IV is consumed exactly once, both integers (equal values) delivered unchanged in order; no keystream position used twice',
#     'first read delivers 1, 2, 3 bytes or everything (one query each)', '2 equal messages (7, 7); IV 2 bytes', auth=1, enc=1, bufsz=24,
#     defines={'H_NMSG': 2, 'H_CALLS': 4, 'H_V1': 7, 'H_V2': 7, 'VF_AIO_MACMSG': 8, 'VF_AIO_NSTREAM': 6}, slices=[{'H_S1': k} for k in (1, 2, 3, 0)])
