# C13: point-to-point channels (aiounicast_select, aiounicast_nonblock) over the in-memory wire of models/aio_model.c
AIO_MODELS = ['gmp_model.c', 'libc_model.c', 'aio_model.c']
AIO_TU = ['aiounicast_select.cc', 'mpz_helper.cc']
AIO_ASSUME = ['read/write/select/fcntl replaced by models/aio_model.c: file descriptor k is an in-memory byte queue; reads are short at most H_FRAG times (arbitrary split points), otherwise deliver everything pending; select may report "not ready" at most H_DELAY times; write accepts everything unless stated',
              'time(): arbitrary non-decreasing instant (models/libc_model.c); all harness calls use timeout 0 for Receive (one scheduler pass per call) and 1 s for Send',
              'two parties (n = 2), scheduler "direct"; TMCG_MAX_VALUE_CHARS (reassembly buffer) shrunk to the stated size']
def AIO(name, entry, desc, symbolic, bounds, auth=0, enc=0, chunked=0, bufsz=16, vbits=34, hide=6, defines=None, assumptions=None, **kw):
    d = {'VF_BITS': vbits, 'H_AUTH': auth, 'H_ENC': enc, 'H_CHUNKED': chunked, 'MINISTL_STREAM_CAP': 32}
    d.update(defines or {})
    cfg = {'TMCG_MAX_VALUE_CHARS': '%dUL' % bufsz, 'TMCG_AIO_HIDE_SIZE': hide}
    cfg.update(kw.pop('config', {}))
    H(id='C13_' + name, property='C13', src='C13_aio.cc', entry=entry, tu=AIO_TU, unwind=kw.pop('unwind', 4), models=AIO_MODELS, defines=d, config=cfg, noinline=True, timeout=kw.pop('timeout', 280),
      desc=desc, symbolic=symbolic, bounds=bounds + '; reassembly buffer %d bytes' % bufsz, assumptions=AIO_ASSUME + (assumptions or []), **kw)

AIO('plain_fragment', 'h_fragment', 'no authentication, no encryption: two integers sent, received through arbitrarily fragmented / coalesced reads: each delivered exactly once, unchanged, in order; a further Receive delivers nothing',
    'split points of up to 2 short reads (all positions), values concrete per slice', 'values {0,61},{62,199},{7,7}; 2 messages; at most 2 short reads',
    defines={'H_NMSG': 2, 'H_FRAG': 2, 'H_CALLS': 4}, slices=[{'H_V1': 0, 'H_V2': 61}, {'H_V1': 62, 'H_V2': 199}, {'H_V1': 7, 'H_V2': 7}])
AIO('probe', 'h_probe', 'probe', '-', '-')
