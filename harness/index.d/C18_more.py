# C18: the 1-of-2 protocol and the optimised 1-of-N protocol (separate code paths)
for _e, _n, _d, _s, _N in (('h_ot_2', 'ot_2', '1-of-2: chooser outputs M_sigma; sender refuses exactly when z_0 == z_1; the other ciphertext opens only if s == 0', 'index, both messages, all coins', 2),
                           ('h_ot_2_firstmove', 'ot_2_firstmove', '1-of-2 sender answers exactly well-formed first moves (four group elements, z_0 != z_1), also truncated ones', 'x, y, z_0, z_1 in [-1, p+2), number of values delivered, sender coins', 2),
                           ('h_ot_nopt', 'ot_nopt_n2', 'optimised 1-of-2: chooser outputs M_sigma; other ciphertexts open only if s_i == 0', 'index, messages, all coins', 2),
                           ('h_ot_nopt', 'ot_nopt_n3', 'optimised 1-of-3: chooser outputs M_sigma; other ciphertexts open only if s_i == 0', 'index, messages, all coins', 3),
                           ('h_ot_nopt_firstmove', 'ot_nopt_firstmove', 'optimised 1-of-N sender answers exactly the first moves made of group elements', 'x, y, z_0 in [-1, p+2), sender coins', 3)):
    PROTO('C18', _n, 'C18_eotp.cc', _e, _d, _s, tu=EOTP_TU, groups=[dict(GRP(7, 3, 2, 2), H_N=_N)], groupsT=[dict(GRP(11, 5, 3, 2), H_N=_N), dict(GRP(7, 3, 2, 2), H_N=_N)], timeout=3000)
    HARNESSES[-1]['defines'] = dict(HARNESSES[-1]['defines'], H_MAXDRAWS=24, **({'H_SHORT': 1} if _e == 'h_ot_2_firstmove' else {}))
    if _e in ('h_ot_2', 'h_ot_nopt'): HARNESSES[-1]['in_tiers'] = ('thorough',)     # honest runs: > 20 min per slice under load; the first-move harnesses stay in the quick tier
    if _e in ('h_ot_2', 'h_ot_nopt'):
        # the "ciphertexts not chosen do not open" clause costs 5-10x the honest run: thorough tier only
        HARNESSES[-1]['tiers']['thorough']['defines'] = dict(HARNESSES[-1]['defines'], H_OTHER=1); HARNESSES[-1]['tiers']['thorough']['memgb'] = 12
