# cut-and-choose stack proof, malicious prover: stack secret of another size than the stack (C12: receiving side of a verifier; C04: soundness input check)
CC_REPLACE = dict(SH_REPLACE)
CC_REPLACE.update({'tmcg_mpz_srandom_mod': 'vfs_scripted_mod', 'tmcg_mpz_ssrandom_mod': 'vfs_scripted_mod', 'tmcg_mpz_wrandom_mod': 'vfs_scripted_mod',
  'std::ostream& operator<<<VTMF_CardSecret>(std::ostream&, TMCG_StackSecret<VTMF_CardSecret> const&)': 'vfs_sts_out',
  'std::istream& operator>><VTMF_CardSecret>(std::istream&, TMCG_StackSecret<VTMF_CardSecret>&)': 'vfs_sts_in'})
CC_TU = SH_TU + ['parse_helper.cc']
CC_ASSUME = SH_ASSUME + ['stack-secret transport (operator<< / operator>> of TMCG_StackSecret<VTMF_CardSecret>) replaced by a typed side channel with the acceptance condition of the real import (size 1..TMCG_MAX_CARDS, indices < size and bijective, any integer exponent); the text importer is checked in C02_sts_import / C12_imp_stacksecret',
                         'hash collision-free on the calls made']
def _g7(**kw): d = GRP(7, 3, 2, 2); d.update(kw); return d
for _prop in ('C12', 'C04'):
    PROTO(_prop, 'cc_size', 'C04_cutchoose.cc', 'h_cc_size', 'TMCG_VerifyStackEquality (cut-and-choose, discrete-log encoding) against a prover that answers with a stack secret of another size than the stack: refused by a result or a standard exception, no abort / out-of-bounds access',
          'whether the prover cheats, cards, exponents of the secret, commitment value, verifier coin', tu=CC_TU, config=dict(SH_CFG, TMCG_MAX_ZNP_ITERATIONS=1, TMCG_MAX_VALUE_CHARS=8), replace=CC_REPLACE, assumptions=CC_ASSUME,
          unwind=4, unwindset=SH_UW, groups=[_g7(H_N=2, H_PERM=0, H_SSN=n) for n in (1, 3)], groupsT=[_g7(H_N=2, H_PERM=0, H_SSN=n) for n in (1, 3)], timeout=3000, in_tiers=('thorough',),
          bounds='stack of 2 cards, stack secret of 1 resp. 3 cards (or, nondeterministically, of the right size); p=7, q=3; one round (kappa = 1)')
    HARNESSES[-1]['defines'] = dict(H_KAPPA=1, H_DBITS=4, H_HMAX=4, H_MAXDRAWS=30, MINISTL_STREAM_CAP=512, H_COLLISION_FREE=1)
# C14 known finding F5 (DeliverFrom starves behind a parked entry of another channel): reported as KNOWN-FINDING by the thorough tier
RBC('dfrom_progress', 'h_dfrom_progress', 'known finding F5: DeliverFrom(i) with a value of another channel parked in buf_mpz[i] must still read the network and return the current channel\'s broadcast', '- (concrete schedule, see known_findings.txt)', ONE, **CH)
