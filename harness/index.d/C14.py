# C14: reliable broadcast (CachinKursawePetzoldShoupRBC) - see harness/notes/C14.md
RBC_TU = ['CachinKursawePetzoldShoupSEABP.cc']
RBC_REPLACE = {
  'operator<<(std::ostream&, __mpz_struct const*)': 'vfstub_mpz_out(std::ostream&, __mpz_struct const*)',
  'tmcg_mpz_shash(__mpz_struct*, unsigned long, ...)': 'rbcstub_shash_va(__mpz_struct*, unsigned long, ...)',
  'tmcg_mpz_shash(__mpz_struct*, std::string const&)': 'rbcstub_shash_str(__mpz_struct*, std::string const&)',
  'tmcg_mpz_wrandom_ui': 'rbcstub_wrandom_ui', 'tmcg_mpz_wrandom_mod': 'rbcstub_wrandom_mod',
  'time': 'rbcstub_time'}
RBC_ASSUME = [
  'network: harness-owned aiounicast subclass (in-memory FIFO queue per directed link, at most 8 messages per link, Send never fails, Receive never blocks)',
  'clock: time() advances one second per call (a Deliver call with time-out 0 processes at most one message)',
  'tag hash H(ID,j,s): fixed injective encoding of the triple (collision-free idealisation), components in [-1,6]',
  'payload hash H(m): memoised collision-free function; arguments first seen in the concrete prefix get digests 1,2,3.., arguments first seen in the symbolic step get an arbitrary unused digest below 2^H_DBITS',
  'channel hash H(text) (setID): texts numbered 1,2,3.. in order of first use',
  'mpz stream operator<<: binary tokens (2+H_TOKBYTES bytes) instead of base-62 text, so tag and digest strings have equal length',
  'tmcg_mpz_wrandom_ui/_mod return 0: the drawn values are used only under simulate_faulty_behaviour (never set) and to permute the scan of buf_msg, which no code path fills (asserted empty)']
def RBC(name, entry, desc, symbolic, bounds, **kw):
    d = dict(id='C14_' + name, property='C14', src='C14_rbc.cc', entry=entry, tu=RBC_TU, unwind=10, replace=RBC_REPLACE,
             defines={'VF_BITS': 34, 'H_DBITS': 4, 'H_TOKBYTES': 2, 'MINISTL_STREAM_CAP': 256, 'MINISTL_STRING_MINCAP': 31},
             config={'TMCG_AIO_HIDE_SIZE': 4}, desc=desc, symbolic=symbolic, bounds=bounds, assumptions=RBC_ASSUME, backend='kissat', memgb=6, timeout=600,
             cbmc_flags=['--max-field-sensitivity-array-size', '300'],   # stream buffers (256 bytes) must stay field-sensitive: concrete tags stay concrete
             unwindset={'_ZNSs6appendEPKcm.4': 40, '_ZNSt11char_traitsIcE6lengthEPKc.0': 40})
    d.update(kw); H(**d)
RBC('honest_n4', 'h_honest', 'n=4, t=1, one honest sender, fixed schedules until quiescence: every party delivers exactly the broadcast value from that sender exactly once; a further Deliver returns nothing',
    'broadcast value m in [-3,200)', 'n=4,t=1; sender 0..3 and four deterministic schedules (rotation forward/backward, run-to-idle forward/backward), one query each',
    slices=[{'H_SENDER': s, 'H_SCHED': c} for s in range(4) for c in range(4)])
HARNESSES[-1]['unwindset'] = dict(HARNESSES[-1]['unwindset'], **{'h_honest.3': 48})
