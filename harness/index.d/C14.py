# C14: reliable broadcast (CachinKursawePetzoldShoupRBC) - see harness/notes/C14.md
RBC_TU = ['CachinKursawePetzoldShoupSEABP.cc']
RBC_REPLACE = {
  'operator<<(std::ostream&, __mpz_struct const*)': 'vfstub_mpz_out(std::ostream&, __mpz_struct const*)',
  'tmcg_mpz_shash(__mpz_struct*, unsigned long, ...)': 'rbcstub_shash_va(__mpz_struct*, unsigned long, ...)',
  'tmcg_mpz_shash(__mpz_struct*, std::string const&)': 'rbcstub_shash_str(__mpz_struct*, std::string const&)',
  'tmcg_mpz_wrandom_ui': 'rbcstub_wrandom_ui', 'tmcg_mpz_wrandom_mod': 'rbcstub_wrandom_mod',
  'time': 'rbcstub_time'}
RBC_ASSUME = [
  'network: harness-owned aiounicast subclass (in-memory FIFO queue per directed link, at most 8 messages per link, Send never fails, Receive never blocks)',
  'clock: time() advances one second per call (a Deliver call with time-out 0 processes at most one message)',
  'tag hash H(ID,j,s): fixed injective encoding of the triple (collision-free idealisation), components in [-1,6]',
  'payload hash H(m): memoised collision-free function; arguments first seen in the concrete prefix get digests 1,2,3.., arguments first seen in the symbolic step get an arbitrary unused digest below 2^H_DBITS',
  'channel hash H(text) (setID): texts numbered 1,2,3.. in order of first use',
  'mpz stream operator<<: binary tokens (2+H_TOKBYTES bytes) instead of base-62 text, so tag and digest strings have equal length',
  'tmcg_mpz_wrandom_ui/_mod return 0: the drawn values are used only under simulate_faulty_behaviour (never set) and to permute the scan of buf_msg, which no code path fills (asserted empty)']
def RBC(name, entry, desc, symbolic, bounds, **kw):
    d = dict(id='C14_' + name, property='C14', src='C14_rbc.cc', entry=entry, tu=RBC_TU, unwind=64, replace=RBC_REPLACE,
             defines={'VF_BITS': 34, 'H_DBITS': 4, 'H_TOKBYTES': 2, 'MINISTL_STREAM_CAP': 64, 'MINISTL_STRING_MINCAP': 31},
             config={'TMCG_AIO_HIDE_SIZE': 4}, desc=desc, symbolic=symbolic, bounds=bounds, assumptions=RBC_ASSUME, backend='kissat', memgb=6, timeout=1500, object_bits=14,
             cbmc_flags=['--max-field-sensitivity-array-size', '300'],   # buffers of 65..256 bytes must stay field-sensitive, otherwise concrete tags turn symbolic for the engine
             )
    d.update(kw); H(**d)
ONE = 'one real party P1 at n=4, t=1; sender 0 (2 in step_send), slot numbers 1..2, channel ids 0 and H("sub"); concrete message prefix'
RBC('step_send', 'h_step_send', 'r-send naming another originator than the link it arrived on: no echo, nothing stored; genuine r-send: echo H(m) to all; second r-send for the tag (same or other link): ignored',
    'payloads x, y in [-2,40), their digests', ONE)
RBC('step_ready', 'h_step_ready', 'ready counting: a repeated ready, a ready for another digest and a changed-mind ready do not count; own ready at t+1; delivery exactly at the 2t+1-th distinct party and only for the same digest',
    '- (digest of the last ready enumerated: the quorum digest, the other digest seen, a fresh one)', ONE, slices=[{'H_D3': 0}, {'H_D3': 9}])
RBC('step_answer', 'h_step_answer', 'stored r-send payload m\' but quorum on H(m): r-request to 2t+1 parties; r-answer accepted iff it hashes to the agreed digest; delivered value is m; refused answer changes nothing; no second delivery by a further answer',
    '- (payload of the first r-answer enumerated: m, another value)', ONE, slices=[{'H_X': 10}, {'H_X': 12}])
RBC('step_fifo', 'h_step_fifo', 'FIFO: slot 2 acknowledged before slot 1 is held back and delivered right after slot 1', '- (concrete scenario)', ONE)
# setID builds 80..120 character texts: 256-byte streams and 128-byte strings make every step ~3x dearer -> thorough tier only (measured 20..24 min under load)
CH = dict(defines={'VF_BITS': 34, 'H_DBITS': 4, 'H_TOKBYTES': 2, 'MINISTL_STREAM_CAP': 256, 'MINISTL_STRING_MINCAP': 127}, in_tiers=('thorough',), timeout=3000)
RBC('step_chan', 'h_step_chan', 'setID/unsetID: a complete quorum of the outer channel is not delivered inside the sub-channel; same slot numbers in the sub-channel deliver their own payload; the outer one is delivered after unsetID',
    '- (concrete scenario)', ONE, **CH)
RBC('step_dfrom', 'h_step_dfrom', 'DeliverFrom(i): values of other senders are kept; a value kept in the outer channel is not handed out inside a sub-channel, and is after unsetID, once',
    '- (concrete scenario)', ONE, **CH)
# Not registered (kept as code in C14_rbc.cc, see notes/C14.md):
#  h_dfrom_progress  - candidate F5 (DeliverFrom starves behind a foreign-channel entry): expected to FAIL on the current tree
#  h_step_answer with H_NOFIFO=1 - non-FIFO channel, duplicate delivery by several r-answers suspected; not run
#  h_honest (H_N=4,H_T=1) - holds in principle but ~40 min per slice
