# C12: card / stack text importers, one damaged byte (symbolic, all values) at an enumerated position, or truncation there
def _imp(name, entry, text, tu, symq=None, symt=None, extra_cfg=None, trq=2, in_tiers=None):
    n = len(text)
    tr = [{'H_POS': i, 'H_TRUNC': 1} for i in range(0, n, 2)]
    trquick = [{'H_POS': i, 'H_TRUNC': 1} for i in range(0, n, trq)]
    symq = range(n) if symq is None else symq; symt = range(n) if symt is None else symt
    H(id='C12_imp_' + name, property='C12', src='C12_import.cc', entry=entry, tu=tu + ['parse_helper.cc', 'mpz_helper.cc'], unwind=12, full_checks=True,
      defines={'VF_BITS': 26, 'MINISTL_STRING_MINCAP': 63, 'MINISTL_STREAM_CAP': 64}, config=dict({'TMCG_MAX_PLAYERS': 4, 'TMCG_MAX_TYPEBITS': 3, 'TMCG_MAX_CARDS': 4, 'TMCG_MAX_CARD_CHARS': 24}, **(extra_cfg or {})),
      models=GCRY_MODELS, timeout=1500,
      desc='%s on a well-formed text with one byte replaced by an arbitrary value (or cut there): result or standard exception, no memory error/abort, accepted objects within configured limits' % entry[2:],
      symbolic='the replacing byte (1..255) at the slice position', bounds='text %r (%d bytes): symbolic byte at positions %s (quick) / %s (thorough), one query each; truncation at every second position; TMCG_MAX_PLAYERS=4, TYPEBITS=3, CARDS=4' % (text, n, list(symq), list(symt)),
      slices=[{'H_POS': i} for i in symq] + trquick, tiers={'thorough': {'slices': [{'H_POS': i} for i in symt] + tr, 'timeout': 3000}})
    if in_tiers: HARNESSES[-1]['in_tiers'] = in_tiers
_imp('vtmf_card', 'h_imp_vtmf_card', 'crd|5|1x|', ['VTMF_Card.cc'])
_imp('vtmf_cs', 'h_imp_vtmf_cs', 'crs|1x|', ['VTMF_CardSecret.cc'])
# the key-ring card: a symbolic player / type-bit count makes the vector-of-vectors shape symbolic (no verdict in 10 min);
# covered: truncations (quick) and a damaged byte inside the number fields (thorough)
_imp('tmcg_card', 'h_imp_tmcg_card', 'crd|2|1|3|4|', ['TMCG_Card.cc'], symq=[], symt=range(8, 12))
_imp('tmcg_cs', 'h_imp_tmcg_cs', 'crs|2|1|3|1|4|0|', ['TMCG_CardSecret.cc'], symq=[], symt=range(8, 16), in_tiers=('thorough',))
# stacks: a damaged byte in the header (magic, size) makes the container shape symbolic: out of memory at 6 GB; positions inside the cards fit
_imp('stack', 'h_imp_stack', 'stk^2^crd|5|7|^crd|1|2|^', ['VTMF_Card.cc'], symq=[], symt=range(6, 24), trq=4)
_imp('stacksecret', 'h_imp_stacksecret', 'sts^2^1^crs|5|^0^crs|7|^', ['VTMF_CardSecret.cc'], symq=[], symt=range(6, 24), trq=4, in_tiers=('thorough',))
_imp('vtmf_card_stream', 'h_imp_vtmf_card_stream', 'crd|5|1x|', ['VTMF_Card.cc'])
