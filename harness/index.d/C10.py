# C10: Rabin key operations (sign/verify, key validation) on hand-assembled toy Blum keys. See harness/notes/C10.md.
C10_TU = ['TMCG_SecretKey.cc', 'TMCG_PublicKey.cc', 'mpz_sqrtm.cc', 'parse_helper.cc']
C10_REPLACE = dict(COIN)
C10_REPLACE.update({
  'tmcg_h': 'vfstub10_h', 'tmcg_g': 'vfstub10_g',
  'operator<<(std::ostream&, __mpz_struct const*)': 'vfstub10_mpz_out(std::ostream&, __mpz_struct const*)',
  '__gmpz_set_str': 'vfstub10_set_str', 'tmcg_mpz_srandom_mod': 'vfstub10_random_mod',
  'memcpy': 'vfstub10_memcpy', 'memset': 'vfstub10_memset', 'memcmp': 'vfstub10_memcmp'})
C10_SQRT_CONTRACT = {'tmcg_mpz_qrmn_p': 'vfstub10_qrmn_p', 'tmcg_mpz_sqrtmn_fast_all': 'vfstub10_sqrt_all'}
C10_ASSUME = [
  'digest length gcry_md_get_algo_dlen() modelled as 1 byte; tmcg_h and tmcg_g replaced by memoised nondeterministic functions from byte strings to byte strings (random oracle restricted to the calls made)',
  'numbers inside texts travel as out-of-band tokens "@k" (operator<< for mpz writes a table index, mpz_set_str reads the table; concrete digit strings are parsed as GMP does); oracle keys substitute tokens by their values; the base-62 codec is checked in C11',
  'gcry_randomize and tmcg_mpz_srandom_mod return arbitrary values in their documented ranges (logged symbolic sources)',
  'keys are assembled by hand around concrete primes p, q = 3 (mod 4) and completed by the real TMCG_SecretKey::precompute(); the sieve-based generation is not run']
C10_KEY = {'H_P': 4099, 'H_Q': 4111, 'H_Y': 3, 'VF_BITS': 52}
def C10(name, entry, desc, symbolic, bounds, contract=False, **kw):
    rep = dict(C10_REPLACE)
    ass = list(C10_ASSUME)
    if contract:
        rep.update(C10_SQRT_CONTRACT)
        ass.append('square-root machinery replaced by its contract (qrmn_p true => sqrtmn_fast_all returns r1,r3 in [0,m), r2=m-r1, r4=m-r3, r_i^2 = a mod m); the contract is checked on the real functions for the same key by C10_sqrt_contract')
    d = dict(id='C10_' + name, property='C10', src='C10_rabin.cc', entry=entry, tu=C10_TU, unwind=56, replace=rep,
             defines=dict(C10_KEY, MINISTL_STREAM_CAP=128), config={'TMCG_PRAB_K0': 1, 'TMCG_SAEP_S0': 1},
             desc=desc, symbolic=symbolic, bounds=bounds, assumptions=ass, backend='kissat', memgb=6, models=GCRY_MODELS)
    d.update(kw); H(**d)
C10('sqrt_contract', 'h_sqrt_contract', 'tmcg_mpz_qrmn_p(a) => tmcg_mpz_sqrtmn_fast_all returns four roots of a (two pairs r, m-r) for the toy key',
    'a in the slice', 'key p=4099, q=4111 (m = 16850989, 25 bits); a < 2^24 (every value sign() can produce)', in_tiers=('thorough',),
    slices=[{'H_ALO': k << 20, 'H_AHI': (k + 1) << 20} for k in range(16)], timeout=3000)
C10('sign_verify', 'h_sign_verify', 'TMCG_SecretKey::sign(data) -> TMCG_PublicKey::verify(data, sig) accepted', 'hash oracle outputs, pad bytes, residuosity answers, returned roots (any values satisfying the contract), root choice',
    'key p=4099, q=4111; TMCG_PRAB_K0=1, 1-byte digest; at most 2 pad draws; data fixed ("msg")', contract=True)
C10('sign_verify_full', 'h_sign_verify', 'sign -> verify accepted, real square-root code', 'hash oracle outputs, pad bytes, root choice',
    'key p=4099, q=4111; TMCG_PRAB_K0=1, 1-byte digest; at most 2 pad draws', in_tiers=('thorough',), timeout=3000)
