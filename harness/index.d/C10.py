import os as _os10
# C10: Rabin key operations (sign/verify, key validation) on hand-assembled toy Blum keys. See harness/notes/C10.md.
C10_TU = ['TMCG_SecretKey.cc', 'TMCG_PublicKey.cc', 'mpz_sqrtm.cc', 'parse_helper.cc']
C10_REPLACE = dict(COIN)
C10_REPLACE.update({
  'tmcg_h': 'vfstub10_h', 'tmcg_g': 'vfstub10_g',
  'operator<<(std::ostream&, __mpz_struct const*)': 'vfstub10_mpz_out(std::ostream&, __mpz_struct const*)',
  '__gmpz_set_str': 'vfstub10_set_str', 'tmcg_mpz_srandom_mod': 'vfstub10_random_mod',
  '__gmpz_mul': 'vfstub10_mul', '__gmpz_mod': 'vfstub10_mod',
  'memcpy': 'vfstub10_memcpy', 'memset': 'vfstub10_memset', 'memcmp': 'vfstub10_memcmp'})
C10_SQRT_CONTRACT = {'tmcg_mpz_qrmn_p': 'vfstub10_qrmn_p', 'tmcg_mpz_sqrtmn_fast_all': 'vfstub10_sqrt_all'}
C10_ASSUME = [
  'digest length gcry_md_get_algo_dlen() modelled as 1 byte; tmcg_h and tmcg_g replaced by memoised nondeterministic functions from byte strings to byte strings (random oracle restricted to the calls made)',
  'numbers inside texts travel as out-of-band tokens "@k" (operator<< for mpz writes a table index, mpz_set_str reads the table; concrete digit strings are parsed as GMP does); oracle keys substitute tokens by their values; the base-62 codec is checked in C11',
  'gcry_randomize and tmcg_mpz_srandom_mod return arbitrary values in their documented ranges (logged symbolic sources)',
  'keys are assembled by hand around concrete primes p, q = 3 (mod 4) and completed by the real TMCG_SecretKey::precompute(); the sieve-based generation is not run']
C10_UNWIND = {'_ZL9sqm_applyjP12__mpz_structPKS_S2_.0': 26, 'h_sign_verify.4': 26, '_ZNKSs7compareEPKcm.0': 54, '_ZNSsC2EPKc.0': 54, '_ZNSs6appendEPKcm.4': 54, '_ZNSs6appendEPKcm.3': 54, 'bitlen.0': 54, '_ZNKSs4findEcm.0': 54, '_ZNSt11char_traitsIcE6lengthEPKc.0': 54, '_ZL5mkkeyR14TMCG_SecretKeymmm.0': 54}
C10_UNWIND.update({'_ZL6oraclejPhmPKhmmb.%d' % _i: 70 for _i in range(16)})
C10_UNWIND.update({'vfstub10_memcpy.0': 70, 'vfstub10_memcpy.1': 70, '_ZNSt5__ios3putEPKcm.3': 64, '_ZNSt5__ios3putEPKcm.4': 64, '_ZNKSs4findEPKcmm.0': 64, '_ZNKSs4findEPKcmm.1': 64})
C10_KEY = {'H_P': 4099, 'H_Q': 4111, 'H_Y': 3, 'VF_BITS': 52}
def C10(name, entry, desc, symbolic, bounds, contract=False, **kw):
    rep = dict(C10_REPLACE)
    ass = list(C10_ASSUME)
    if contract:
        rep.update(C10_SQRT_CONTRACT)
        ass.append('square-root machinery replaced by its contract (qrmn_p true => sqrtmn_fast_all returns r1,r3 in [0,m), r2=m-r1, r4=m-r3, r_i^2 = a mod m); this contract is NOT machine-checked at the 25-bit key (h_sqrt_contract on the real functions did not close, see notes/C10.md); C09_sqrtmn* check the non-fast variants on products < 128')
    d = dict(id='C10_' + name, property='C10', src='C10_rabin.cc', entry=entry, tu=C10_TU, unwind=12, replace=rep, unwindset=dict(C10_UNWIND),
             defines=dict(C10_KEY, MINISTL_STREAM_CAP=64, **({'H_MAXDRAWS10': int(_os10.environ['C10_DRAWS'])} if _os10.environ.get('C10_DRAWS') else {})), config={'TMCG_PRAB_K0': 1, 'TMCG_SAEP_S0': 1},
             desc=desc, symbolic=symbolic, bounds=bounds, assumptions=ass, backend='kissat', memgb=6, models=GCRY_MODELS)
    d.update(kw); H(**d)
C10('sign_verify', 'h_sign_verify', 'TMCG_SecretKey::sign(data) -> TMCG_PublicKey::verify(data, sig) accepted', 'hash oracle outputs, pad bytes, residuosity answers, returned roots (any values satisfying the contract), root choice',
    'key p=4099, q=4111; TMCG_PRAB_K0=1, 1-byte digest; at most 2 pad draws; data fixed ("msg"); the root choice is enumerated by slices', contract=True,
    slices=[{'H_ROOT': k} for k in range(4)], timeout=1800)
C10('sig_tamper', 'h_sig_tamper', 'a valid signature with its value / the data changed: exact acceptance condition',
    'the valid signature s0 (any verifying value in [0,m)), the replacement value in [-2, m+2) resp. one replaced data character (all 255 other values), all oracle outputs',
    'key p=4099, q=4111; one kind of edit per query: value, data character (position 1 quick / 0..2 thorough); the key-id edits (H_TK=2) are in the source but NOT registered (see notes/C10.md)',
    slices=[{'H_TK': 0}, {'H_TK': 1, 'H_POS': 1}], timeout=1800,
    tiers={'thorough': {'slices': [{'H_TK': 0}] + [{'H_TK': 1, 'H_POS': k} for k in range(3)]}})
if _os10.environ.get('C10_DEBUG'):
    C10('dbg_a', 'h_dbg_a', 'debug', '-', '-', contract=True); HARNESSES[-1]['defines']['H_DEBUG10'] = 1
    C10('dbg_c', 'h_dbg_c', 'debug', '-', '-', contract=True); HARNESSES[-1]['defines']['H_DEBUG10'] = 1
    C10('dbg_m', 'h_dbg_m', 'debug', '-', '-', contract=True); HARNESSES[-1]['defines']['H_DEBUG10'] = 1
    C10('dbg_b', 'h_dbg_b', 'debug', '-', '-', contract=True); HARNESSES[-1]['defines']['H_DEBUG10'] = 1
# key validation: proofs with fewer rounds than configured (one entry per stage: the configuration differs)
for _st, _cfg in ((1, (2, 1, 1)), (2, (1, 2, 1)), (3, (1, 1, 2))):
    C10('check_rounds_s%d' % _st, 'h_check_rounds', 'TMCG_PublicKey::check() refuses a key whose NIZK proof has one round less than TMCG_KEY_NIZK_STAGE%d' % _st,
        'self-signature value, every proof value (each in [0,m)), all oracle outputs', 'key p=4099, q=4111; TMCG_KEY_NIZK_STAGE1..3 = %s, proof rounds one less in stage %d; one challenge draw per round' % (_cfg, _st),
        src='C10_check.cc', in_tiers=('thorough',), timeout=1500, config={'TMCG_PRAB_K0': 1, 'TMCG_SAEP_S0': 1, 'TMCG_KEYID_SIZE': 2, 'TMCG_KEY_NIZK_STAGE1': _cfg[0], 'TMCG_KEY_NIZK_STAGE2': _cfg[1], 'TMCG_KEY_NIZK_STAGE3': _cfg[2]},
        defines=dict(C10_KEY, MINISTL_STREAM_CAP=64, MINISTL_STRING_MINCAP=63, H_SHORT=_st),
        unwindset=dict(C10_UNWIND, **{'__gmpz_probab_prime_p.0': 2100, '__gmpz_jacobi.0': 160, '__gmpz_ui_pow_ui.0': 60, '__gmpz_ui_pow_ui.2': 26, 'powmw.0': 54, '_ZN14TMCG_PublicKey5checkEv.7': 1, '_ZN14TMCG_PublicKey5checkEv.19': 1, '_ZN14TMCG_PublicKey5checkEv.32': 1}, **{'h_check_rounds.%d' % _i: 64 for _i in range(100)}))
    HARNESSES[-1]['assumptions'] = HARNESSES[-1]['assumptions'] + ['NIZK challenges returned by the oracle are units modulo m (exceptional set: a challenge divisible by p or q), so every rejection loop of check() runs once']
