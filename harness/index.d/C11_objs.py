# C11: object-level export/import round trips through the real text operators; few symbolic characters per query
H(id='C11_vtmf_card_text', property='C11', src='C11_roundtrip.cc', entry='h_vtmf_card_text', tu=['mpz_helper.cc', 'VTMF_Card.cc', 'parse_helper.cc'], unwind=12,
  defines={'VF_BITS': 13, 'H_VMAX': 62, 'MINISTL_STREAM_CAP': 64, 'MINISTL_STRING_MINCAP': 63}, models=GCRY_MODELS, backend='kissat', timeout=3000, in_tiers=('thorough',),
  desc='VTMF_Card: operator<< -> import -> operator<< identity (real base-62 text, real parser)', symbolic='one card component in [0, 62) (one base-62 digit), the other fixed by the slice (quick); both components in [0, 62) (thorough)',
  bounds='thorough tier only (7-15 min per query): one symbolic component with the other 1234 resp. 0, and both symbolic single-digit',
  slices=[{'H_FIX2': 1234, 'H_VMAX': 62}, {'H_FIX1': 0, 'H_VMAX': 62}, {'H_VMAX': 62}])
# h_tmcg_card_resize (C11_roundtrip.cc): TMCG_Card::resize / operator= on used objects of other shapes - SAT back end out of memory at 6 GB for every
# shape tried (three vector<vector<MP_INT>> objects); not registered.
