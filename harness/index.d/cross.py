# harnesses that decide a clause of more than one property are registered under each of them (same entry, same bounds)
import copy as _copy
def _also(hid, prop, newid, desc_prefix):
    for h in list(HARNESSES):
        if h['id'] == hid:
            g = _copy.deepcopy(h); g['id'] = newid; g['property'] = prop; g['desc'] = desc_prefix + h['desc']; HARNESSES.append(g); return
    raise KeyError(hid)
# C02 "no card is re-typed by mixing": in the QR encoding the stack secret's card secrets must XOR to the neutral type
_also('C01_cs_xor', 'C02', 'C02_cs_xor', 'mixing does not re-type cards (QR encoding): ')
# C04: the cut-and-choose verifier mixes with the prover-supplied stack secret after import; its soundness rests on import refusing non-bijections
_also('C02_sts_import', 'C04', 'C04_sts_import', 'cut-and-choose verifier input: ')
