C06('groupqr', 'h_groupqr_group', ['BarnettSmartVTMF_dlog_GroupQR.cc', 'NaorPinkasEOTP.cc', 'JareckiLysyanskayaASTC.cc', 'PedersenVSS.cc', 'BarnettSmartVTMF_dlog.cc', 'mpz_spowm.cc', 'mpz_sprime.cc'],
    'BarnettSmartVTMF_dlog_GroupQR::CheckGroup/CheckElement == specification (p = 2q+1, p = 7 mod 8, canonical generator 2^(2^(|p|-E)), quadratic residues)', qsel=(0, 1, 2, 7, 11, 13, 15))
HARNESSES[-1]['tiers'] = {'thorough': {'slices': [dict(H_P=p, H_W=5, VF_BITS=14) for p in range(0, 32)], 'timeout': 3000}}
