# C15 (VSS / DKG consistency) and the multi-party part of C17 (coin flip): one real party against an ideal tape network (harness/vfh_net.hh)
NET_REPLACE = dict(PROTO_REPLACE)
NET_REPLACE.update({'CachinKursawePetzoldShoupRBC::setID': 'vfstub_rbc_setid', 'CachinKursawePetzoldShoupRBC::unsetID': 'vfstub_rbc_unsetid',
                    'CachinKursawePetzoldShoupRBC::Broadcast': 'vfstub_rbc_broadcast', 'CachinKursawePetzoldShoupRBC::DeliverFrom': 'vfstub_rbc_deliverfrom',
                    'aiounicast::aiounicast': 'vfstub_aiou_ctor'})
NET_ASSUME = PROTO_ASSUME + ['ideal network: CachinKursawePetzoldShoupRBC::{setID,unsetID,Broadcast,DeliverFrom} and aiounicast::{Send,Receive} replaced by per-sender FIFO tapes '
                             '(reliable, same broadcast value for every receiver, exhausted tape = timeout, channel identifiers ignored); the RBC object is not constructed (only n, t, j set); '
                             'aiounicast base constructor replaced (sets n, j only)',
                             'one real party per query; all other parties are arbitrary tapes of small integers (ranges in `symbolic`)']
# loops whose trip count is a string length or the integer width (found once with a verbose run; the witness twin would find them too, one round each)
NET_UNWIND = {'strlen.0': 48, '_ZNSs6appendEPKcm.1': 48, '_ZNSs6appendEPKcm.4': 48, '_ZNSt5__ios3putEPKcm.4': 48, 'bitlen.0': 12}
PVSS_TU = ['PedersenVSS.cc', 'mpz_spowm.cc', 'mpz_sprime.cc']
def NETH(prop, name, src, entry, desc, symbolic, tu, slices, slicesT=None, **kw):
    d = dict(id='%s_%s' % (prop, name), property=prop, src=src, entry=entry, tu=list(tu), unwind=6, unwindset=dict(NET_UNWIND), replace=NET_REPLACE,
             defines={'VF_BITS': 9, 'H_MAXDRAWS': 16, 'MINISTL_STREAM_CAP': 256, 'H_DBITS': 4, 'MINISTL_MAP_MAX': 4}, config={'TMCG_MAX_FPOWM_T': 4},
             desc=desc, symbolic=symbolic, assumptions=NET_ASSUME, slices=slices, backend='kissat', memgb=6, timeout=1500,
             bounds='toy Schnorr groups and (n,t,own index,...) one query per slice: quick %s; TMCG_MAX_FPOWM_T=4' % [sorted(s.items()) for s in slices],
             tiers={'thorough': {'slices': slicesT or slices, 'timeout': 3000}})
    d.update(kw); H(**d)
def NS(grp, **kw): return dict(grp, **kw)
G7, G11, G23 = GRP(7, 3, 2, 2), GRP(11, 5, 3, 2), GRP(23, 11, 2, 2)
NETH('C15', 'pvss_share_recv', 'C15_vss.cc', 'h_pvss_recv',
     'PedersenVSS::Share as receiver vs arbitrary dealer/third party: complaint <=> share does not verify; accepted => <= t complaints, public answers verify, stored share verifies (if no own complaint); no complaint => not disqualified',
     'commitments A_k in [-1,p+2), share pair and published pair in [-q,q], who-values in [0,n], tape lengths (dealer broadcast, dealer unicast, third party)', PVSS_TU,
     [NS(G7, H_N=2, H_T=0, H_I=1, H_D=0, VN_PARTIES=2), NS(G7, H_N=3, H_T=1, H_I=1, H_D=0)],
     [NS(G11, H_N=2, H_T=0, H_I=1, H_D=0, VN_PARTIES=2), NS(G11, H_N=3, H_T=1, H_I=1, H_D=0), NS(G7, H_N=3, H_T=1, H_I=0, H_D=2), NS(G7, H_N=3, H_T=1, H_I=2, H_D=1)])
