# C15 (VSS / DKG consistency) and the multi-party part of C17 (coin flip): one real party against an ideal tape network (harness/vfh_net.hh)
NET_REPLACE = dict(PROTO_REPLACE)
NET_REPLACE.update({'CachinKursawePetzoldShoupRBC::setID': 'vfstub_rbc_setid', 'CachinKursawePetzoldShoupRBC::unsetID': 'vfstub_rbc_unsetid',
                    'CachinKursawePetzoldShoupRBC::Broadcast': 'vfstub_rbc_broadcast', 'CachinKursawePetzoldShoupRBC::DeliverFrom': 'vfstub_rbc_deliverfrom',
                    'aiounicast::aiounicast': 'vfstub_aiou_ctor'})
NET_ASSUME = PROTO_ASSUME + ['ideal network: CachinKursawePetzoldShoupRBC::{setID,unsetID,Broadcast,DeliverFrom} and aiounicast::{Send,Receive} replaced by per-sender FIFO tapes '
                             '(reliable, same broadcast value for every receiver, exhausted tape = timeout, channel identifiers ignored); the RBC object is not constructed (only n, t, j set); '
                             'aiounicast base constructor replaced (sets n, j only)',
                             'one real party per query; all other parties are arbitrary tapes of small integers (ranges in `symbolic`)']
# loops whose trip count is a string length or the integer width (found once with a verbose run; the witness twin would find them too, one round each)
NET_UNWIND = {'strlen.0': 48, '_ZNSs6appendEPKcm.1': 48, '_ZNSs6appendEPKcm.4': 48, '_ZNSt5__ios3putEPKcm.4': 48, 'bitlen.0': 12}
PVSS_TU = ['PedersenVSS.cc', 'mpz_spowm.cc', 'mpz_sprime.cc']
def NETH(prop, name, src, entry, desc, symbolic, tu, slices, slicesT=None, **kw):
    d = dict(id='%s_%s' % (prop, name), property=prop, src=src, entry=entry, tu=list(tu), unwind=6, unwindset=dict(NET_UNWIND), replace=NET_REPLACE,
             defines={'VF_BITS': 9, 'H_MAXDRAWS': 16, 'MINISTL_STREAM_CAP': 256, 'H_DBITS': 4, 'MINISTL_MAP_MAX': 4}, config={'TMCG_MAX_FPOWM_T': 4},
             desc=desc, symbolic=symbolic, assumptions=NET_ASSUME, slices=slices, backend='kissat', memgb=6, timeout=1500,
             bounds='toy Schnorr groups and (n,t,own index,...) one query per slice: quick %s; TMCG_MAX_FPOWM_T=4' % [sorted(s.items()) for s in slices],
             tiers={'thorough': {'slices': slicesT or slices, 'timeout': 3000}})
    d.update(kw); H(**d)
def NS(grp, **kw): return dict(grp, **kw)
G7, G11, G23 = GRP(7, 3, 2, 2), GRP(11, 5, 3, 2), GRP(23, 11, 2, 2)
NETH('C15', 'pvss_share_recv', 'C15_vss.cc', 'h_pvss_recv',
     'PedersenVSS::Share as receiver vs arbitrary dealer/third party: complaint <=> share does not verify; accepted => <= t complaints, public answers verify, stored share verifies (if no own complaint); no complaint => not disqualified',
     'commitments A_k in [-1,p+2), share pair and published pair in [-q,q], tape lengths (dealer broadcast, dealer unicast); the complaint list of the third party (H_OT) and the who-value of the public answer (H_RWHO) are enumerated by slices', PVSS_TU,
     [NS(G7, H_N=2, H_T=0, H_I=1, H_D=0, VN_PARTIES=2), NS(G7, H_N=3, H_T=1, H_I=1, H_D=0, H_OT=0)],
     None,   # a third slice (third party complains, public answer checked) held in 494-556 s before the oracle was rewritten and was not re-measured: NS(G7, H_N=3, H_T=1, H_I=1, H_D=0, H_OT=1, H_AFULL=0, H_SLO=0)
     timeout=1500)
NETH('C15', 'pvss_share_dealer', 'C15_vss.cc', 'h_pvss_dealer',
     'PedersenVSS::Share as honest dealer: A_k = g^a_k h^b_k, a_0 = secret, the pair sent to P_j is (f(j+1), f\'(j+1)) and passes the share check; a complaint is answered with the same pair; > t complaints => gives up',
     'secret and all polynomial coefficients in [0,q); complaint lists of the receivers enumerated by slices (H_CT)', PVSS_TU,
     [NS(G7, H_N=2, H_T=0, H_I=0, H_D=0, VN_PARTIES=2, H_CT=1), NS(G7, H_N=3, H_T=1, H_I=0, H_D=0, H_CT=0), NS(G7, H_N=3, H_T=1, H_I=0, H_D=0, H_CT=1)],
     None,
     timeout=1500)
# ---- written but NOT registered (did not close under load, see notes/C15.md); to try on an idle machine remove the leading '# ':
# (1) the finding slice D1 (negative published pair; VIOLATION on the current tree, replayed natively):
#   NETH('C15', 'pvss_share_recv_negpair', 'C15_vss.cc', 'h_pvss_recv', 'as pvss_share_recv, published pair in [-q,q]', '...', PVSS_TU,
#        [NS(G7, H_N=3, H_T=1, H_I=1, H_D=0, H_OT=1, H_AFULL=0, H_SLO=0, H_RLO='(-H_Q)')], timeout=3000)
# (2) own complaint must be resolved (suspected defect D2): same entry with H_OT=0, H_RESOLVE=1
# (3) reconstruction / RVSS::Reconstruct (n = 2t+1 boundary; would catch "t+2 shares" = seeded C17a once it closes):
# RVSS_TU = ['JareckiLysyanskayaASTC.cc', 'PedersenVSS.cc', 'mpz_spowm.cc', 'mpz_sprime.cc']
# NETH('C17', 'rvss_reconstruct', 'C15_recon.cc', 'h_rvss_recon_delta',
#      'JareckiLysyanskayaRVSS::Reconstruct (multi-party coin flip, step 3), n=2t+1=3 with the deviator being reconstructed: own + one verified share suffice, unverified pair not counted, result = committed value',
#      'deviation (d1,d2) in [0,q)^2 added to the helper pair, helper tape length; the deviator\'s dealt polynomials are concrete per slice', RVSS_TU,
#      [NS(G7)], [NS(G7), NS(G11), NS(G11, H_CA='{ 4, 3, 0 }', H_CB='{ 0, 2, 0 }')], timeout=600)
