// C03 / C04 / C05 for the verifiable rotation of homomorphic encryptions (HooghSchoenmakersSkoricVillegasVRHE with its
// PUB-ROT-ZK sub-argument): Y_k = X_{k-r} * (g^{s_k}, h^{s_k}), n = H_N ElGamal ciphertexts.
//
// Non-interactive transcript (12 n + 1 tokens):  h_k [0, n)   A_k pairs [n, 3n)   v [3n]   f_k [3n+1, 4n]   F_k pairs [4n+1, 6n]
//   tau [6n+1, 7n]   rho [7n+1, 8n]   mu [8n+1, 9n]   | PUB-ROT-ZK: f [9n+1, 10n]   lambda_k [10n+1, 11n]   t_k [11n+1, 12n]
// Fiat-Shamir digests in call order: alpha_0..alpha_{n-1}, lambda (VRHE), beta_0..beta_{n-1}, lambda' (PUB-ROT-ZK); each reduced mod q.
//
// Completeness has no exceptional set here (every check is an identity; ranges are |v| < q). Wrong witness: with
// rho_k = A_k - a_{k-r} - s_k and sigma_k = B_k - b_{k-r} - x s_k (exponents of the two components of Y_k / (X_{k-r} E(1; s_k))) the
// verifier's last equation holds iff sum_k alpha_{k-r} rho_k == 0 and sum_k alpha_{k-r} sigma_k == 0 (mod q): exact exceptional set.
#ifndef H_P
#define H_P 11
#define H_Q 5
#define H_G 3
#define H_K 2
#endif
#ifndef H_N
#define H_N 2
#endif
#ifndef H_ROT
#define H_ROT 1
#endif
#include "vfh_shuffle.hh"
#include "SchindelhauerTMCG.hh"
#include "BarnettSmartVTMF_dlog.hh"
#include "HooghSchoenmakersSkoricVillegasVRHE.hh"
#include "mpz_spowm.hh"
#define NTOK (12 * H_N + 1)

static HooghSchoenmakersSkoricVillegasVRHE *mkvrhe(long h) {
  Z P(H_P), Q(H_Q), G(H_G), Hh(h);
  return new HooghSchoenmakersSkoricVillegasVRHE(P, Q, G, Hh, 2, 2);
}
static BarnettSmartVTMF_dlog *mkvtmf(long x) {
  BarnettSmartVTMF_dlog *v = new BarnettSmartVTMF_dlog(2, 2, false, false);
  mpz_set_ui(v->p, H_P); mpz_set_ui(v->q, H_Q); mpz_set_ui(v->g, H_G); mpz_set_ui(v->k, H_K);
  tmcg_mpz_fpowm_precompute(v->fpowm_table_g, v->g, v->p, mpz_sizeinbase(v->q, 2L));
  mpz_set_si(v->x_i, x); mpz_set_si(v->h, vfs_gpow[x]); mpz_set(v->h_i, v->h);
  v->KeyGenerationProtocol_Finalize();
  return v;
}
static long sym_key() {
#ifdef H_X
  return H_X;
#else
  return vfh_range(1, H_Q);
#endif
}
typedef std::vector<std::pair<mpz_ptr, mpz_ptr> > pairvec;
static mpz_ptr mkz(long v) { mpz_ptr x = new mpz_t(); mpz_init_set_si(x, v); return x; }
static void push_ct(pairvec &v, long c1, long c2) { v.push_back(std::pair<mpz_ptr, mpz_ptr>(mkz(c1), mkz(c2))); }
struct stmt { long a[H_N], b[H_N], s[H_N], A[H_N], B[H_N]; };
// X arbitrary, Y the rotation by H_ROT re-encrypted with s_k (exponents in st); Y is NOT pushed (the caller may falsify it)
static void sym_stmt(stmt &st, long x, pairvec &X, std::vector<mpz_ptr> &sv) {
  for (unsigned i = 0; i < H_N; ++i) { st.a[i] = vfh_range(0, H_Q); st.b[i] = vfh_range(0, H_Q); push_ct(X, vfs_gpow[st.a[i]], vfs_gpow[st.b[i]]); }
  for (unsigned k = 0; k < H_N; ++k) {
    unsigned kr = (k + H_N - H_ROT) % H_N;
    st.s[k] = vfh_range(0, H_Q);
    st.A[k] = vfs_addq(st.a[kr], st.s[k], H_Q); st.B[k] = vfs_addq(st.b[kr], vfs_mulq(x, st.s[k]), H_Q);
    sv.push_back(mkz(st.s[k]));
  }
}
static void slurp(std::stringstream &t, long *v, unsigned n) { std::string c = t.str(); std::stringstream cp(c); for (unsigned i = 0; i < n; ++i) { Z x; cp >> (mpz_ptr)x; v[i] = x.get(); } }
static long modq(unsigned long o) { long v = (long)o; while (v >= H_Q) v -= H_Q; return v; }     // o < 2^H_DBITS: at most 2^H_DBITS / q rounds

// ------------------------------------------------------------------------------------------------ C03, non-interactive
H_ENTRY(h_vrhe_ni) {
  vfs_tables(H_P, H_Q, H_G);
  long x = sym_key();
  HooghSchoenmakersSkoricVillegasVRHE *vr = mkvrhe(vfs_gpow[x]);
  stmt st; pairvec X, Y; std::vector<mpz_ptr> s;
  sym_stmt(st, x, X, s);
  for (unsigned k = 0; k < H_N; ++k) push_ct(Y, vfs_gpow[st.A[k]], vfs_gpow[st.B[k]]);
  std::stringstream t;
  vr->Prove_noninteractive(H_ROT, s, X, Y, t);
  unsigned fresh_before = vfs_fresh;
  bool ok = false; H_TRY(ok = vr->Verify_noninteractive(X, Y, t));
  vf_assert(vfh_exc == 0 && ok, "honest rotation proof is accepted (no exceptional set)");
  vf_assert(vfs_fresh == fresh_before, "the verifier re-derives exactly the prover's challenges");
  H_END();
}

// ------------------------------------------------------------------------------------------------ C03, top level, non-interactive
H_ENTRY(h_stackeq_hoogh_ni) {
  vfs_tables(H_P, H_Q, H_G);
  long x = sym_key();
  BarnettSmartVTMF_dlog *vtmf = mkvtmf(x);
  HooghSchoenmakersSkoricVillegasVRHE *vr = mkvrhe(vfs_gpow[x]);
  SchindelhauerTMCG *tmcg = new SchindelhauerTMCG(2, 2, 1);
  TMCG_Stack<VTMF_Card> s, s2;
  for (unsigned i = 0; i < H_N; ++i) { VTMF_Card c; mpz_set_si(c.c_1, vfs_gpow[vfh_range(0, H_Q)]); mpz_set_si(c.c_2, vfs_gpow[vfh_range(0, H_Q)]); s.push(c); }
  TMCG_StackSecret<VTMF_CardSecret> ss;
  for (unsigned i = 0; i < H_N; ++i) { VTMF_CardSecret cs; vfh_mpz(cs.r, 0, H_Q); ss.push((i + H_ROT) % H_N, cs); }     // what random_rotation yields for r = H_ROT
  tmcg->TMCG_MixStack(s, s2, ss, vtmf, false);
  std::stringstream t;
  tmcg->TMCG_ProveStackEquality_Hoogh_noninteractive(s, s2, ss, vtmf, vr, t);
  bool ok = false; H_TRY(ok = tmcg->TMCG_VerifyStackEquality_Hoogh_noninteractive(s, s2, vtmf, vr, t));
  vf_assert(vfh_exc == 0 && ok, "TMCG_MixStack with a cyclic stack secret -> ProveStackEquality_Hoogh_noninteractive -> Verify: accepted");
  H_END();
}

// ------------------------------------------------------------------------------------------------ C03, interactive (transcript fixed point)
// verifier coins: alpha_0..alpha_{n-1}, lambda, beta_0..beta_{n-1}, lambda' - arbitrary values in [0, q)
H_ENTRY(h_vrhe_int) {
  vfs_tables(H_P, H_Q, H_G);
  long x = sym_key();
  HooghSchoenmakersSkoricVillegasVRHE *vr = mkvrhe(vfs_gpow[x]);
  stmt st; pairvec X, Y; std::vector<mpz_ptr> s;
  sym_stmt(st, x, X, s);
  for (unsigned k = 0; k < H_N; ++k) push_ct(Y, vfs_gpow[st.A[k]], vfs_gpow[st.B[k]]);
  long ch[2 * H_N + 2]; for (unsigned i = 0; i < 2 * H_N + 2; ++i) ch[i] = vfh_range(0, H_Q);
  std::stringstream pin, pout, vout;
  for (unsigned i = 0; i < 2 * H_N + 2; ++i) vfh_put(pin, ch[i]);
  vr->Prove_interactive(H_ROT, s, X, Y, pin, pout);
  vfh_nfixed = 0; vfh_fixed_used = 0; for (unsigned i = 0; i < 2 * H_N + 2; ++i) vfh_fix_next(ch[i]);
  bool ok = false; H_TRY(ok = vr->Verify_interactive(X, Y, pout, vout));
  vf_assert(vfh_exc == 0 && ok, "honest interactive rotation proof is accepted");
  long w[2 * H_N + 2]; slurp(vout, w, 2 * H_N + 2);
  for (unsigned i = 0; i < 2 * H_N + 2; ++i) vf_assert(w[i] == ch[i], "the verifier sends exactly the challenges the prover answered, in the same order");
  H_END();
}

// ------------------------------------------------------------------------------------------------ C04, wrong witness (non-interactive)
// H_WRONG = 1: output ciphertext H_BAD is an arbitrary other pair of group elements.
// H_WRONG = 2 (n = 3): Y is a re-encrypted TRANSPOSITION of X (positions 0 and 1 exchanged, seen from the claimed rotation), i.e. a
//              non-cyclic permutation presented as the rotation H_ROT.
#ifndef H_BAD
#define H_BAD 0
#endif
#ifndef H_WRONG
#define H_WRONG 1
#endif
H_ENTRY(h_vrhe_wrong) {
  vfs_tables(H_P, H_Q, H_G);
  long x = sym_key();
  HooghSchoenmakersSkoricVillegasVRHE *vr = mkvrhe(vfs_gpow[x]);
  stmt st; pairvec X, Y; std::vector<mpz_ptr> s;
  sym_stmt(st, x, X, s);
  long A[H_N], B[H_N];
  for (unsigned k = 0; k < H_N; ++k) { A[k] = st.A[k]; B[k] = st.B[k]; }
#if H_WRONG == 1
  A[H_BAD] = vfh_range(0, H_Q); B[H_BAD] = vfh_range(0, H_Q);
  vf_assume(A[H_BAD] != st.A[H_BAD] || B[H_BAD] != st.B[H_BAD]);
#else
  { // exchange the sources of outputs 0 and 1 (keeping their re-encryption exponents): no longer a rotation of X for n >= 3
    unsigned k0 = (0 + H_N - H_ROT) % H_N, k1 = (1 + H_N - H_ROT) % H_N;
    A[0] = vfs_addq(st.a[k1], st.s[0], H_Q); B[0] = vfs_addq(st.b[k1], vfs_mulq(x, st.s[0]), H_Q);
    A[1] = vfs_addq(st.a[k0], st.s[1], H_Q); B[1] = vfs_addq(st.b[k0], vfs_mulq(x, st.s[1]), H_Q);
    vf_assume(st.a[k0] != st.a[k1] || st.b[k0] != st.b[k1]); }       // the two exchanged cards differ (otherwise nothing was changed)
#endif
  for (unsigned k = 0; k < H_N; ++k) push_ct(Y, vfs_gpow[A[k]], vfs_gpow[B[k]]);
  std::stringstream t;
  vr->Prove_noninteractive(H_ROT, s, X, Y, t);
  long al[H_N]; for (unsigned j = 0; j < H_N; ++j) al[j] = modq(vfs_hout[j]);        // alpha_j = digests 0..n-1 reduced mod q
  bool ok = true; H_TRY(ok = vr->Verify_noninteractive(X, Y, t));
  vf_assert(vfh_exc == 0, "verifier does not throw");
  long s1 = 0, s2 = 0;
  for (unsigned k = 0; k < H_N; ++k) {
    unsigned kr = (k + H_N - H_ROT) % H_N;
    long rho = vfs_subq(A[k], st.A[k], H_Q), sig = vfs_subq(B[k], st.B[k], H_Q);
    s1 = vfs_addq(s1, vfs_mulq(al[kr], rho), H_Q); s2 = vfs_addq(s2, vfs_mulq(al[kr], sig), H_Q);
  }
  vf_assert(ok == (s1 == 0 && s2 == 0), "output that is not the claimed rotation accepted <=> the challenge vector alpha annihilates both error vectors (exact exceptional set)");
#if H_WRONG == 2
  { unsigned k0 = (0 + H_N - H_ROT) % H_N, k1 = (1 + H_N - H_ROT) % H_N;
    if (ok) vf_assert(al[k0] == al[k1], "a transposition presented as a rotation is accepted only if the two challenges coincide modulo q"); }
#endif
  H_END();
}

// ------------------------------------------------------------------------------------------------ C05: one transmitted value replaced (non-interactive)
// positions by slice (H_POS). Responses tau, rho, mu (VRHE) and lambda_k, t_k (PUB-ROT-ZK) are no hash inputs: accepted only as another
// representative of the same residue with |value| < q. v (position 3 n) is an input of lambda's hash: accepted only as such a
// representative and under a re-drawn lambda. Group elements: accepted only under re-drawn challenges; value + p is never accepted.
#ifndef H_POS
#define H_POS (6 * H_N + 1)
#endif
H_ENTRY(h_vrhe_tamper) {
  vfs_tables(H_P, H_Q, H_G);
  long x = sym_key();
  HooghSchoenmakersSkoricVillegasVRHE *vr = mkvrhe(vfs_gpow[x]);
  stmt st; pairvec X, Y; std::vector<mpz_ptr> s;
  sym_stmt(st, x, X, s);
  for (unsigned k = 0; k < H_N; ++k) push_ct(Y, vfs_gpow[st.A[k]], vfs_gpow[st.B[k]]);
  std::stringstream t;
  vr->Prove_noninteractive(H_ROT, s, X, Y, t);
  long v[NTOK]; slurp(t, v, NTOK);
  const unsigned pos = H_POS;
  // exponents: v (3n), tau/rho/mu (6n+1 .. 9n), lambda_k, t_k (10n+1 .. 12n)
  const bool is_exp = (pos == 3 * H_N) || (pos >= 6 * H_N + 1 && pos <= 9 * H_N) || (pos >= 10 * H_N + 1);
  const bool hashed = !((pos >= 6 * H_N + 1 && pos <= 9 * H_N) || (pos >= 10 * H_N + 1));
  long nv = is_exp ? vfh_range(-2 * H_Q, 3 * H_Q) : vfh_range(-1, 2 * H_P + 1);
  vf_assume(nv != v[pos]);
  std::stringstream t2; for (unsigned i = 0; i < NTOK; ++i) vfh_put(t2, i == pos ? nv : v[i]);
  unsigned fresh_before = vfs_fresh;
  bool ok = true; H_TRY(ok = vr->Verify_noninteractive(X, Y, t2));
  bool redrawn = vfs_fresh != fresh_before;
  vf_assert(vfh_exc == 0 || vfh_exc == 1, "an edited proof is answered by a result or a standard exception");
  bool acc = (vfh_exc == 0) && ok;
  long an = nv < 0 ? -nv : nv;
  bool same_class = ((nv - v[pos]) % H_Q == 0) && an < H_Q;
  if (is_exp && !hashed) { if (acc) vf_assert(same_class, "edited response accepted only as another representative of the same residue, |value| < q"); }
  else if (is_exp) { if (acc) vf_assert(same_class && redrawn, "edited v accepted only as another representative and under a re-drawn challenge"); }
  else { if (acc) vf_assert(redrawn && nv > 0 && nv < H_P, "edited group element accepted only in range and under re-drawn challenges"); }
  H_END();
}
