# what each claimed check decides (level text) and what it assumes (note)
CLAIMS = {
 'C19': ('For every input within the bounds the library encoders/decoders (packet length all 2^32 values and all header octets, tag, radix-64 incl. line wrapping, CRC-24, scalars/time) equal short reference functions written from RFC 4880, and decode(encode(x)) == x; decided by SAT over all inputs, not sampled.',
         'byte strings <= 3 (quick) / 7 (thorough) octets; GnuPG as judge and long inputs are outside; ministl replaces libstdc++; reference functions are the trusted oracle'),
'C12': ('For every byte string within the length bound, the parsers of untrusted input encoded so far (OpenPGP SubpacketDecode, PacketBodyExtract, PacketStringDecode, Radix64Decode; see evidence for the current list) terminate without out-of-bounds access, invalid iterator range, assert/abort or non-standard exception; decided by SAT over all byte values per length. Found and led to the repair of a 32-bit wrap-around in SubpacketDecode.',
         'input lengths per harness as listed in evidence (<= 8..12 octets); message/key-block parsers above PacketDecode are outside; allocation failure out of scope (malloc never fails); ministl replaces libstdc++ (its iterator-range precondition is asserted where libstdc++ has UB)'),
}
NA = {}
