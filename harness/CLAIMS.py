# what each claimed check decides (level text) and what it assumes (note)
CLAIMS = {
 'C19': ('For every input within the bounds the library encoders/decoders (packet length all 2^32 values and all header octets, tag, radix-64 incl. line wrapping, CRC-24, scalars/time) equal short reference functions written from RFC 4880, and decode(encode(x)) == x; decided by SAT over all inputs, not sampled.',
         'byte strings <= 3 (quick) / 7 (thorough) octets; GnuPG as judge and long inputs are outside; ministl replaces libstdc++; reference functions are the trusted oracle'),
}
NA = {}
