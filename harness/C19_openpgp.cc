// C19: OpenPGP encodings vs. short reference functions written from RFC 4880
#include "vfh.hh"
#include "CallasDonnerhackeFinneyShawThayerRFC4880.hh"
typedef CallasDonnerhackeFinneyShawThayerRFC4880 PGP;

// ---- RFC 4880 section 4.2.2: new-format body length encoding
static void ref_len_encode(uint32_t len, unsigned char *o, size_t &n) {
  if (len <= 191) { o[0] = (unsigned char)len; n = 1; }
  else if (len <= 8383) { uint32_t t = len - 192; o[0] = (unsigned char)((t >> 8) + 192); o[1] = (unsigned char)(t & 0xFF); n = 2; }
  else { o[0] = 0xFF; o[1] = (unsigned char)(len >> 24); o[2] = (unsigned char)(len >> 16); o[3] = (unsigned char)(len >> 8); o[4] = (unsigned char)len; n = 5; }
}

H_ENTRY(h_pktlen_roundtrip) {
  uint32_t len = vf_nondet_u32();
  tmcg_openpgp_octets_t out;
  PGP::PacketLengthEncode(len, out);
  unsigned char ref[5]; size_t rn;
  ref_len_encode(len, ref, rn);
  vf_assert(out.size() == rn, "length header has the RFC size");
  for (size_t i = 0; i < rn && i < out.size(); ++i) vf_assert(out[i] == ref[i], "length header octets equal RFC 4880 4.2.2");
  uint32_t dl = 0; bool part = true;
  size_t hl = PGP::PacketLengthDecode(out, true, 0, dl, part);
  vf_assert(hl == rn, "decode consumes the whole header");
  vf_assert(dl == len, "decode(encode(len)) == len");
  vf_assert(!part, "not a partial length");
  H_END();
}

// ---- RFC 4880 sections 4.2.1 / 4.2.2: decoding of arbitrary header octets
H_ENTRY(h_pktlen_decode) {
  tmcg_openpgp_octets_t in;
  vfh_bytes(in, 5);
  bool newformat = vf_nondet_u8() & 1;
  unsigned char lentype = vf_nondet_u8();
  uint32_t len = 0xDEADBEEF; bool part = false;
  size_t hl = PGP::PacketLengthDecode(in, newformat, lentype, len, part);
  size_t n = in.size();
  // reference
  size_t rhl = 0; uint32_t rlen = 0xDEADBEEF; bool rpart = false;
  if (n >= 1) {
    unsigned a = in[0];
    if (newformat) {
      if (a < 192) { rhl = 1; rlen = a; }
      else if (a < 224) { if (n >= 2) { rhl = 2; rlen = ((a - 192) << 8) + in[1] + 192; } }
      else if (a == 255) { if (n >= 5) { rhl = 5; rlen = ((uint32_t)in[1] << 24) | ((uint32_t)in[2] << 16) | ((uint32_t)in[3] << 8) | in[4]; } }
      else { rhl = 1; rlen = (uint32_t)1 << (a & 0x1F); rpart = true; }
    } else {
      if (lentype == 0) { rhl = 1; rlen = a; }
      else if (lentype == 1) { if (n >= 2) { rhl = 2; rlen = ((uint32_t)a << 8) | in[1]; } }
      else if (lentype == 2) { if (n >= 4) { rhl = 4; rlen = ((uint32_t)a << 24) | ((uint32_t)in[1] << 16) | ((uint32_t)in[2] << 8) | in[3]; } }
      else if (lentype == 3) { rhl = 42; rlen = (uint32_t)n; }
    }
  }
  vf_assert(hl == rhl, "header length (0 = error) equals reference");
  if (rhl != 0) {
    vf_assert(len == rlen, "decoded length equals reference");
    vf_assert(part == rpart, "partial flag equals reference");
  }
  H_END();
}

H_ENTRY(h_tag_encode) {
  unsigned char tag = vf_nondet_u8();
  vf_assume(tag < 64);
  tmcg_openpgp_octets_t out;
  PGP::PacketTagEncode(tag, out);
  vf_assert(out.size() == 1 && out[0] == (0xC0 | tag), "new-format tag octet: bits 7,6 set, tag in bits 5-0");
  H_END();
}

// ---- RFC 4880 section 6.3: radix-64
static const char B64[] = "ABCDEFGHIJKLMNOPQRSTUVWXYZabcdefghijklmnopqrstuvwxyz0123456789+/";
static void ref_b64(const tmcg_openpgp_octets_t &in, std::string &out) {
  size_t i = 0, n = in.size();
  for (; i + 3 <= n; i += 3) {
    unsigned v = (in[i] << 16) | (in[i + 1] << 8) | in[i + 2];
    out += B64[(v >> 18) & 63]; out += B64[(v >> 12) & 63]; out += B64[(v >> 6) & 63]; out += B64[v & 63];
  }
  if (n - i == 2) { unsigned v = (in[i] << 16) | (in[i + 1] << 8); out += B64[(v >> 18) & 63]; out += B64[(v >> 12) & 63]; out += B64[(v >> 6) & 63]; out += '='; }
  else if (n - i == 1) { unsigned v = in[i] << 16; out += B64[(v >> 18) & 63]; out += B64[(v >> 12) & 63]; out += '='; out += '='; }
}

#ifndef H_R64_MAX
#define H_R64_MAX 4
#endif
H_ENTRY(h_radix64) {
  tmcg_openpgp_octets_t in, back;
  vfh_bytes(in, H_R64_MAX);
  std::string enc, ref;
  PGP::Radix64Encode(in, enc, false);
  ref_b64(in, ref);
  vf_assert(enc == ref, "Radix64Encode equals RFC 4880 6.3 reference");
  PGP::Radix64Decode(enc, back);
  vf_assert(back == in, "Radix64Decode(Radix64Encode(x)) == x");
  H_END();
}

// line wrapping: with linebreaks the output is the reference text with CRLF after every MC characters
// (but never at the very end), and still decodes to the input
H_ENTRY(h_radix64_wrap) {
  tmcg_openpgp_octets_t in, back;
  vfh_bytes(in, H_R64_MAX);
  std::string enc, ref, refw;
  PGP::Radix64Encode(in, enc, true);
  ref_b64(in, ref);
  for (size_t i = 0; i < ref.size(); ++i) {
    refw += ref[i];
    if (((i + 1) % TMCG_OPENPGP_RADIX64_MC) == 0 && (i + 1) < ref.size()) refw += "\r\n";
  }
  vf_assert(enc == refw, "wrapped Radix64 output: CRLF exactly after every MC characters, none trailing");
  PGP::Radix64Decode(enc, back);
  vf_assert(back == in, "decode of wrapped text == input");
  H_END();
}

// ---- RFC 4880 section 6.1: CRC-24 as polynomial division, bit by bit
H_ENTRY(h_crc24) {
  tmcg_openpgp_octets_t in, out;
  vfh_bytes(in, 3);
  PGP::CRC24Compute(in, out);
  uint32_t crc = 0xB704CE;
  for (size_t k = 0; k < in.size(); ++k)
    for (int b = 7; b >= 0; --b) {
      uint32_t bit = (in[k] >> b) & 1;
      uint32_t top = (crc >> 23) & 1;
      crc = (crc << 1) & 0xFFFFFF;
      if (top ^ bit) crc ^= 0x864CFB & 0xFFFFFF;
    }
  vf_assert(out.size() == 3, "CRC is three octets");
  vf_assert(out.size() == 3 && out[0] == ((crc >> 16) & 0xFF) && out[1] == ((crc >> 8) & 0xFF) && out[2] == (crc & 0xFF), "CRC-24 equals the RFC 4880 6.1 definition");
  H_END();
}

H_ENTRY(h_scalar_time) {
  uint32_t v = vf_nondet_u32();
  tmcg_openpgp_octets_t o4, ot;
  PGP::PacketScalarFourEncode(v, o4);
  vf_assert(o4.size() == 4 && o4[0] == (v >> 24) && o4[1] == ((v >> 16) & 0xFF) && o4[2] == ((v >> 8) & 0xFF) && o4[3] == (v & 0xFF), "four-octet scalar is big-endian");
  PGP::PacketTimeEncode((time_t)v, ot);
  vf_assert(ot == o4, "time field is the four-octet big-endian scalar");
  H_END();
}

// ---- RFC 4880 section 3.2: MPI = two-octet bit count (big-endian) + minimal big-endian magnitude
H_ENTRY(h_mpi_roundtrip) {
  unsigned long v = vf_nondet_u32() & 0xFFFFFF;           // values below 2^24 incl. 0 and leading-zero byte cases
  gcry_mpi_t a = gcry_mpi_new(32); gcry_mpi_set_ui(a, v);
  tmcg_openpgp_octets_t enc;
  PGP::PacketMPIEncode(a, enc);
  unsigned nbits = 0; for (unsigned long t = v; t; t >>= 1) ++nbits;
  unsigned nbytes = (nbits + 7) / 8;
  vf_assert(enc.size() == 2 + nbytes, "MPI length = 2 + ceil(bits/8)");
  vf_assert(enc.size() >= 2 && enc[0] == (nbits >> 8) && enc[1] == (nbits & 0xFF), "MPI bit count, big-endian");
  for (unsigned i = 0; i < nbytes && 2 + i < enc.size(); ++i) vf_assert(enc[2 + i] == ((v >> (8 * (nbytes - 1 - i))) & 0xFF), "MPI magnitude, big-endian, no leading zero octet");
  gcry_mpi_t b = gcry_mpi_new(32);
  size_t used = PGP::PacketMPIDecode(enc, b);
  vf_assert(used == enc.size(), "decode consumes the whole MPI");
  vf_assert(gcry_mpi_cmp(a, b) == 0, "PacketMPIDecode(PacketMPIEncode(x)) == x");
  H_END();
}

// ---- RFC 4880 sections 5.7, 5.9, 5.11, 5.14: simple packets = new-format tag octet, body length, body; and decoding
//      an emitted packet with PacketBodyExtract recovers tag and body
#ifndef H_PKMAX
#define H_PKMAX 3
#endif
static void expect_packet(const tmcg_openpgp_octets_t &out, unsigned tag, const tmcg_openpgp_octets_t &body) {
  vf_assert(out.size() == 2 + body.size(), "packet = tag octet + one-octet length + body (body < 192 octets)");
  if (out.size() == 2 + body.size()) {
    vf_assert(out[0] == (0xC0 | tag), "new-format tag octet");
    vf_assert(out[1] == body.size(), "one-octet body length");
    for (size_t i = 0; i < body.size(); ++i) vf_assert(out[2 + i] == body[i], "body octets in order");
  }
  tmcg_openpgp_octets_t back;
  tmcg_openpgp_byte_t t = PGP::PacketBodyExtract(out, 0, back);
  vf_assert(t == tag, "PacketBodyExtract recovers the tag of an emitted packet");
  vf_assert(back == body, "PacketBodyExtract recovers the body of an emitted packet");
}
H_ENTRY(h_simple_packets) {
  tmcg_openpgp_octets_t in, out, body;
  vfh_bytes(in, H_PKMAX);
  unsigned which = vf_nondet_u8() % 3;
  if (which == 0) { PGP::PacketSedEncode(in, out); expect_packet(out, 9, in); }
  else if (which == 1) { std::string uid; for (size_t i = 0; i < in.size(); ++i) uid += (char)in[i]; PGP::PacketUidEncode(uid, out); expect_packet(out, 13, in); }
  else {
    PGP::PacketLitEncode(in, out);
    vf_assert(out.size() == 2 + 6 + in.size() && out[0] == (0xC0 | 11) && out[1] == 6 + in.size() && out[2] == 0x62 && out[3] == 0, "literal packet: tag 11, length, format b, empty file name");
    if (out.size() == 8 + in.size()) for (size_t i = 0; i < in.size(); ++i) vf_assert(out[8 + i] == in[i], "literal data follows the four-octet date");
  }
  H_END();
}
