// C08: all players derive the same common key, independent of processing order; remove restores; refused leaves unchanged
#include "vfh_proto.hh"
#include "BarnettSmartVTMF_dlog.hh"
#include "mpz_spowm.hh"
#ifndef H_P
#define H_P 7
#define H_Q 3
#define H_G 2
#define H_K 2
#endif
static BarnettSmartVTMF_dlog *mkvtmf() {
  BarnettSmartVTMF_dlog *v = new BarnettSmartVTMF_dlog(2, 2, false, false);
  mpz_set_ui(v->p, H_P); mpz_set_ui(v->q, H_Q); mpz_set_ui(v->g, H_G); mpz_set_ui(v->k, H_K);
  tmcg_mpz_fpowm_precompute(v->fpowm_table_g, v->g, v->p, mpz_sizeinbase(v->q, 2L));
  return v;
}
static bool feed(BarnettSmartVTMF_dlog *to, const std::string &proof) { std::stringstream s(proof); return to->KeyGenerationProtocol_UpdateKey(s); }
static bool unfeed(BarnettSmartVTMF_dlog *to, const std::string &proof) { std::stringstream s(proof); return to->KeyGenerationProtocol_RemoveKey(s); }

// three players; A and B process the other two contributions in symbolic (possibly different) orders
#ifdef H_XB
#define FIXBC() do { vfh_fix_next(H_XB); vfh_fix_next(H_XC); } while (0)   /* slice: secret keys of B and C concrete */
#else
#define FIXBC() ((void)0)
#endif
H_ENTRY(h_order) {
  BarnettSmartVTMF_dlog *A = mkvtmf(), *B = mkvtmf(), *C = mkvtmf();
  FIXBC(); B->KeyGenerationProtocol_GenerateKey(); C->KeyGenerationProtocol_GenerateKey(); A->KeyGenerationProtocol_GenerateKey();
  std::stringstream ka, kb, kc;
  A->KeyGenerationProtocol_PublishKey(ka); B->KeyGenerationProtocol_PublishKey(kb); C->KeyGenerationProtocol_PublishKey(kc);
  std::string pa = ka.str(), pb = kb.str(), pc = kc.str();
  bool ok = true;
  if (vf_nondet_u8() & 1) { ok = feed(A, pb) && ok; ok = feed(A, pc) && ok; } else { ok = feed(A, pc) && ok; ok = feed(A, pb) && ok; }
  if (vf_nondet_u8() & 1) { ok = feed(B, pa) && ok; ok = feed(B, pc) && ok; } else { ok = feed(B, pc) && ok; ok = feed(B, pa) && ok; }
  vf_assert(ok, "every honest contribution is accepted");
  Z prod; mpz_mul(prod, A->h_i, B->h_i); mpz_mod(prod, prod, A->p); mpz_mul(prod, prod, C->h_i); mpz_mod(prod, prod, A->p);
  vf_assert(mpz_cmp(A->h, B->h) == 0, "both players hold the same common key");
  vf_assert(mpz_cmp(A->h, prod) == 0, "common key == product of all individual public keys");
  vf_assert(A->KeyGenerationProtocol_NumberOfKeys() == 2 || mpz_cmp(B->h_i, C->h_i) == 0, "number of stored foreign keys");
  H_END();
}

// add B, add C, remove C: back to the key with only B; remove of an unknown contribution is refused and changes nothing
H_ENTRY(h_remove) {
  BarnettSmartVTMF_dlog *A = mkvtmf(), *B = mkvtmf(), *C = mkvtmf();
  FIXBC(); B->KeyGenerationProtocol_GenerateKey(); C->KeyGenerationProtocol_GenerateKey(); A->KeyGenerationProtocol_GenerateKey();
  vf_assume(mpz_cmp(B->h_i, C->h_i) != 0);          // exceptional set at toy size: two players with the same key (probability 1/q)
  std::stringstream kb, kc;
  B->KeyGenerationProtocol_PublishKey(kb); C->KeyGenerationProtocol_PublishKey(kc);
  std::string pb = kb.str(), pc = kc.str();
  Z h0, h1; mpz_set(h0, A->h);
  vf_assert(!unfeed(A, pc) && mpz_cmp(A->h, h0) == 0, "removing a contribution that was never added is refused, key unchanged");
  vf_assume(feed(A, pb)); mpz_set(h1, A->h);
  vf_assume(feed(A, pc));
  vf_assert(unfeed(A, pc), "removing an accepted contribution succeeds");
  vf_assert(mpz_cmp(A->h, h1) == 0, "after removal the key in effect without that contribution is restored");
  vf_assert(A->KeyGenerationProtocol_NumberOfKeys() == 1, "one foreign key left");
  vf_assert(unfeed(A, pb) && mpz_cmp(A->h, h0) == 0, "removing the other one restores the initial key");
  H_END();
}

// malformed contributions: arbitrary key value (incl. non-members, 0, negative, >= p), arbitrary c, r; or truncated proof
H_ENTRY(h_bad) {
  BarnettSmartVTMF_dlog *A = mkvtmf();
  A->KeyGenerationProtocol_GenerateKey();
  Z h0; mpz_set(h0, A->h);
  long key = vfh_range(-2, 2 * H_P), c = vfh_range(0, 1 << H_DBITS), r = vfh_range(-H_Q, 2 * H_Q);
  unsigned ntok = (unsigned)vf_nondet_below(4);     // 0..3 tokens present
  std::stringstream t; if (ntok > 0) vfh_put(t, key); if (ntok > 1) vfh_put(t, c); if (ntok > 2) vfh_put(t, r);
  vfh_forbid_on = true; vfh_forbid = c;
  bool ok = true;
  H_TRY(ok = A->KeyGenerationProtocol_UpdateKey(t));
  bool member = false; { Z kk(key), e; if (key > 0 && key < H_P) { mpz_powm(e, kk, A->q, A->p); member = (mpz_cmp_ui(e, 1) == 0); } }
  if (vfh_exc == 0 && ok) {
    vf_assert(ntok == 3 && member, "accepted contribution is complete and its key is a group member");
  } else {
    vf_assert(mpz_cmp(A->h, h0) == 0 && A->KeyGenerationProtocol_NumberOfKeys() == 0, "a refused contribution leaves the common key and key count unchanged");
  }
  H_END();
}

// a key outside G accompanied by a proof that was honestly computed for exactly that key (prover knows x with key = u*g^x
// for an element u outside G): must be refused whatever the challenge turns out to be
H_ENTRY(h_outgroup) {
  BarnettSmartVTMF_dlog *A = mkvtmf(), *B = mkvtmf();
  A->KeyGenerationProtocol_GenerateKey(); B->KeyGenerationProtocol_GenerateKey();
  Z u, e, h0; vfh_mpz(u, 1, H_P);
  mpz_powm(e, u, B->q, B->p); vf_assume(mpz_cmp_ui(e, 1) != 0);      // u is not in G
  mpz_mul(B->h_i, B->h_i, u); mpz_mod(B->h_i, B->h_i, B->p);          // published key = u * g^x, outside G
  std::stringstream t; B->KeyGenerationProtocol_PublishKey(t);
  mpz_set(h0, A->h);
  bool ok = true; H_TRY(ok = A->KeyGenerationProtocol_UpdateKey(t));
  vf_assert(vfh_exc == 0 && !ok, "a key outside the group is refused even with a proof computed for it");
  vf_assert(mpz_cmp(A->h, h0) == 0, "common key unchanged");
  H_END();
}
