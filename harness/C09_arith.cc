// C09: arithmetic primitives against their mathematical definition (the model's plain mpz_powm etc.)
#include "vfh_gmp.hh"
#include "mpz_spowm.hh"
#include "mpz_sqrtm.hh"
#include "mpz_helper.hh"
#include <stdexcept>
#ifndef H_W
#define H_W 5
#endif
#define LIM (1L << H_W)

struct Z { mpz_t v; Z() { mpz_init(v); } ~Z() { mpz_clear(v); } operator mpz_ptr() { return v; } };

// symbolic odd modulus p in [3, 2^W), base m in [1, p) with gcd(m, p) = 1
static void sym_mod_base(mpz_ptr p, mpz_ptr m) {
#ifdef H_P
  long pv = H_P;            // slice: this query is for one concrete modulus; the runner enumerates all odd p < 2^W
#else
  long pv = vfh_range(3, LIM); vf_assume(pv & 1);
#endif
  mpz_set_si(p, pv);
  long mv = vfh_range(1, pv);
  mpz_set_si(m, mv);
  Z inv; vf_assume(mpz_invert(inv, m, p) != 0);   // m is a unit mod p
}

// tmcg_mpz_spowm (constant-time variant) == mpz_powm for exponents of either sign and zero
// Known finding KF1 (see /verif/known_findings.txt): for a positive exponent x that is not a unit modulo p (for prime
// p: a multiple of p) the function's dummy value bar = -x is not invertible and the function throws. h_spowm covers everything outside that
// set, h_spowm_kf1 asserts the property inside it (and is expected to fail on the pinned tree).
static bool kf1_set(mpz_srcptr x, mpz_srcptr p) { Z t; return mpz_sgn(x) > 0 && !mpz_invert(t, x, p); }
H_ENTRY(h_spowm) {
  Z p, m, x, r, ref;
  sym_mod_base(p, m);
  vfh_mpz(x, -LIM + 1, LIM);
  vf_assume(!kf1_set(x, p));
  H_TRY(tmcg_mpz_spowm(r, m, x, p));
  vf_assert(vfh_exc == 0, "spowm does not throw for a unit base and odd modulus");
  mpz_powm(ref, m, x, p);
  vf_assert(mpz_cmp(r, ref) == 0, "tmcg_mpz_spowm == m^x mod p");
  H_END();
}

H_ENTRY(h_spowm_kf1) {
  Z p, m, x, r, ref;
  sym_mod_base(p, m);
  vfh_mpz(x, 1, 3 * LIM);
  vf_assume(kf1_set(x, p));
  H_TRY(tmcg_mpz_spowm(r, m, x, p));
  mpz_powm(ref, m, x, p);
  vf_assert(vfh_exc == 0 && mpz_cmp(r, ref) == 0, "KF1 tmcg_mpz_spowm == m^x mod p also for positive exponents that are not units mod p");
  H_END();
}

// even modulus is refused by a standard exception, result untouched semantics not required
H_ENTRY(h_spowm_even) {
  Z p, m, x, r;
  long pv = vfh_range(2, LIM); vf_assume((pv & 1) == 0);
  mpz_set_si(p, pv); vfh_mpz(m, 0, pv); vfh_mpz(x, -LIM + 1, LIM);
  H_TRY(tmcg_mpz_spowm(r, m, x, p));
  vf_assert(vfh_exc == 1, "even modulus is refused with a standard exception");
  H_END();
}

// Chaum blinding variant, all blinding coins
H_ENTRY(h_spowm_baseblind) {
  Z p, m, x, r, ref;
  sym_mod_base(p, m);
  vfh_mpz(x, -LIM + 1, LIM);
  tmcg_mpz_spowm_baseblind(r, m, x, p);
  mpz_powm(ref, m, x, p);
  vf_assert(mpz_cmp(r, ref) == 0, "tmcg_mpz_spowm_baseblind == m^x mod p for every blinding value");
  H_END();
}

// Kocher blinding: init once, two consecutive calc calls (the seed update is part of the claim)
H_ENTRY(h_spowm_kocher) {
  Z p, m, m2, x, r, ref;
  sym_mod_base(p, m);
  long m2v = vfh_range(0, LIM); mpz_set_si(m2, m2v); vf_assume(mpz_cmp(m2, p) < 0);
  vfh_mpz(x, 0, LIM);
  tmcg_mpz_spowm_init(x, p);
  tmcg_mpz_spowm_calc(r, m);
  mpz_powm(ref, m, x, p);
  vf_assert(mpz_cmp(r, ref) == 0, "first tmcg_mpz_spowm_calc == m^x mod p");
  tmcg_mpz_spowm_calc(r, m2);
  mpz_powm(ref, m2, x, p);
  vf_assert(mpz_cmp(r, ref) == 0, "second tmcg_mpz_spowm_calc (after seed update) == m2^x mod p");
  tmcg_mpz_spowm_clear();
  H_END();
}

// table-based powers: exponent bit length up to TMCG_MAX_FPOWM_T and one beyond (must throw), either sign
static void table_setup(mpz_t *tab, mpz_ptr p, mpz_ptr m) {
  sym_mod_base(p, m);
  tmcg_mpz_fpowm_init(tab);
  tmcg_mpz_fpowm_precompute(tab, m, p, TMCG_MAX_FPOWM_T);
}
#define XLIM (1L << (TMCG_MAX_FPOWM_T + 1))
H_ENTRY(h_fpowm) {
  mpz_t *tab = new mpz_t[TMCG_MAX_FPOWM_T]();
  Z p, m, x, r, ref;
  table_setup(tab, p, m);
  vfh_mpz(x, -XLIM + 1, XLIM);
  bool toolong = mpz_sizeinbase(x, 2) > TMCG_MAX_FPOWM_T;
  H_TRY(tmcg_mpz_fpowm(tab, r, m, x, p));
  if (toolong) {
    vf_assert(vfh_exc == 1, "exponent longer than the table is refused (invalid_argument)");
  } else {
    vf_assert(vfh_exc == 0, "fpowm accepts exponents up to the table limit");
    mpz_powm(ref, m, x, p);
    vf_assert(mpz_cmp(r, ref) == 0, "tmcg_mpz_fpowm == m^x mod p");
  }
  H_END();
}
H_ENTRY(h_fspowm) {
  mpz_t *tab = new mpz_t[TMCG_MAX_FPOWM_T]();
  Z p, m, x, r, ref;
  table_setup(tab, p, m);
  vfh_mpz(x, -XLIM + 1, XLIM);
  bool toolong = mpz_sizeinbase(x, 2) > TMCG_MAX_FPOWM_T;
  H_TRY(tmcg_mpz_fspowm(tab, r, m, x, p));
  if (toolong) {
    vf_assert(vfh_exc == 1, "exponent longer than the table is refused (invalid_argument)");
  } else {
    vf_assert(vfh_exc == 0, "fspowm accepts exponents up to the table limit");
    mpz_powm(ref, m, x, p);
    vf_assert(mpz_cmp(r, ref) == 0, "tmcg_mpz_fspowm == m^x mod p");
  }
  H_END();
}
H_ENTRY(h_fpowm_ui) {
  mpz_t *tab = new mpz_t[TMCG_MAX_FPOWM_T]();
  Z p, m, r, ref;
  table_setup(tab, p, m);
  unsigned long x = (unsigned long)vfh_range(0, XLIM);
  bool toolong = x >= (1UL << TMCG_MAX_FPOWM_T);
  H_TRY(tmcg_mpz_fpowm_ui(tab, r, m, x, p));
  if (toolong) {
    vf_assert(vfh_exc == 1, "exponent longer than the table is refused (invalid_argument)");
  } else {
    vf_assert(vfh_exc == 0, "fpowm_ui accepts exponents up to the table limit");
    mpz_powm_ui(ref, m, x, p);
    vf_assert(mpz_cmp(r, ref) == 0, "tmcg_mpz_fpowm_ui == m^x mod p");
  }
  H_END();
}
// a base different from the one the table was computed for is refused
H_ENTRY(h_fpowm_wrongbase) {
  mpz_t *tab = new mpz_t[TMCG_MAX_FPOWM_T]();
  Z p, m, m2, x, r;
  table_setup(tab, p, m);
  vfh_mpz(m2, -2, LIM); vf_assume(mpz_cmp(m2, m) != 0);
  vfh_mpz(x, 0, 4);
  unsigned which = vf_nondet_u8() % 3;
  if (which == 0) H_TRY(tmcg_mpz_fpowm(tab, r, m2, x, p));
  else if (which == 1) H_TRY(tmcg_mpz_fspowm(tab, r, m2, x, p));
  else H_TRY(tmcg_mpz_fpowm_ui(tab, r, m2, 3UL, p));
  vf_assert(vfh_exc == 1, "table power with another base is refused (invalid_argument)");
  H_END();
}

// ---------------------------------------------------------------- square roots
// H_P (and H_Q) are concrete primes of the slice; the residue is symbolic: a = y^2 mod p for an arbitrary unit y,
// which ranges over all quadratic residues.
#ifdef H_P
static void sym_qr(mpz_ptr a, mpz_srcptr n) {
  Z y, g; vfh_mpz(y, 1, (long)mpz_get_ui(n));
  mpz_gcd(g, y, n); vf_assume(mpz_cmp_ui(g, 1) == 0);
  mpz_mul(a, y, y); mpz_mod(a, a, n);
}
static void check_root(mpz_srcptr root, mpz_srcptr a, mpz_srcptr n) {
  Z t; mpz_mul(t, root, root); mpz_mod(t, t, n);
  vf_assert(mpz_cmp(t, a) == 0, "root^2 == a (mod modulus)");
  vf_assert(mpz_sgn(root) >= 0 && mpz_cmp(root, n) < 0, "root is a reduced residue");
}
H_ENTRY(h_sqrtmp) {
  Z p, a, r; mpz_set_ui(p, H_P); sym_qr(a, p);
  H_TRY(tmcg_mpz_sqrtmp(r, a, p));
  vf_assert(vfh_exc == 0, "sqrtmp does not throw for a quadratic residue");
  check_root(r, a, p);
  H_END();
}
H_ENTRY(h_sqrtmp_r) {
  Z p, a, r; mpz_set_ui(p, H_P); sym_qr(a, p);
  H_TRY(tmcg_mpz_sqrtmp_r(r, a, p));
  vf_assert(vfh_exc == 0, "sqrtmp_r does not throw for a quadratic residue");
  check_root(r, a, p);
  H_END();
}
H_ENTRY(h_sqrtmp_zero) {
  Z p, a, r; mpz_set_ui(p, H_P);
  if (vf_nondet_u8() & 1) H_TRY(tmcg_mpz_sqrtmp(r, a, p)); else H_TRY(tmcg_mpz_sqrtmp_r(r, a, p));
  vf_assert(vfh_exc == 1, "a = 0 is refused with a standard exception");
  H_END();
}
#ifdef H_Q
H_ENTRY(h_sqrtmn) {
  Z p, q, n, a, r; mpz_set_ui(p, H_P); mpz_set_ui(q, H_Q); mpz_mul(n, p, q); sym_qr(a, n);
  if (vf_nondet_u8() & 1) H_TRY(tmcg_mpz_sqrtmn(r, a, p, q, n)); else H_TRY(tmcg_mpz_sqrtmn_r(r, a, p, q, n));
  vf_assert(vfh_exc == 0, "sqrtmn does not throw for a quadratic residue");
  check_root(r, a, n);
  H_END();
}
H_ENTRY(h_sqrtmn_all) {
  Z p, q, n, a, r1, r2, r3, r4; mpz_set_ui(p, H_P); mpz_set_ui(q, H_Q); mpz_mul(n, p, q); sym_qr(a, n);
  if (vf_nondet_u8() & 1) H_TRY(tmcg_mpz_sqrtmn_all(r1, r2, r3, r4, a, p, q, n)); else H_TRY(tmcg_mpz_sqrtmn_r_all(r1, r2, r3, r4, a, p, q, n));
  vf_assert(vfh_exc == 0, "sqrtmn_all does not throw for a quadratic residue");
  check_root(r1, a, n); check_root(r2, a, n); check_root(r3, a, n); check_root(r4, a, n);
  vf_assert(mpz_cmp(r1, r2) && mpz_cmp(r1, r3) && mpz_cmp(r1, r4) && mpz_cmp(r2, r3) && mpz_cmp(r2, r4) && mpz_cmp(r3, r4), "the four roots are pairwise distinct");
  H_END();
}
// quadratic residuosity test == existence of a root (both directions; the modulus is concrete, so the search is a bounded loop)
H_ENTRY(h_qrmn_p) {
  Z p, q, n, a, g; mpz_set_ui(p, H_P); mpz_set_ui(q, H_Q); mpz_mul(n, p, q);
  unsigned long nn = mpz_get_ui(n);
  vfh_mpz(a, 1, (long)nn);
  mpz_gcd(g, a, n); vf_assume(mpz_cmp_ui(g, 1) == 0);
  unsigned long av = mpz_get_ui(a); bool exists = false;
  for (unsigned long y = 1; y < nn; ++y) if ((y * y) % nn == av) exists = true;
  vf_assert((tmcg_mpz_qrmn_p(a, p, q) != 0) == exists, "tmcg_mpz_qrmn_p(a) <=> a has a square root mod pq");
  H_END();
}
#endif
#endif

// ---------------------------------------------------------------- polynomial interpolation
// (a_k, b_k), k < m, modulo the prime q of the slice: on success the returned coefficients reproduce every point;
// success <=> the abscissae are pairwise distinct modulo q
#ifdef H_IQ
#include <vector>
#ifndef H_IM
#define H_IM 3
#endif
H_ENTRY(h_interpolate) {
  std::vector<mpz_ptr> a, b, f; Z q; mpz_set_ui(q, H_IQ);
  for (unsigned k = 0; k < H_IM; ++k) {
    mpz_ptr x = new mpz_t(), y = new mpz_t(), z = new mpz_t(); mpz_init(x); mpz_init(y); mpz_init(z);
    vfh_mpz(x, 0, H_IQ); vfh_mpz(y, 0, H_IQ); a.push_back(x); b.push_back(y); f.push_back(z);
  }
  bool ok = false; H_TRY(ok = tmcg_interpolate_polynom(a, b, q, f));
  vf_assert(vfh_exc == 0, "interpolation does not throw for well-formed arguments");
  bool distinct = true;
  for (unsigned i = 0; i < H_IM; ++i) for (unsigned j = 0; j < i; ++j) if (mpz_cmp(a[i], a[j]) == 0) distinct = false;
  vf_assert(ok == distinct, "interpolation succeeds exactly for pairwise distinct abscissae");
  if (ok) for (unsigned k = 0; k < H_IM; ++k) {
    long acc = 0, xv = (long)mpz_get_ui(a[k]);
    for (int d = (int)H_IM - 1; d >= 0; --d) acc = (acc * xv + (long)mpz_get_ui(f[d])) % H_IQ;     // Horner
    vf_assert(acc == (long)mpz_get_ui(b[k]), "the interpolated polynomial reproduces every given point");
    vf_assert(mpz_sgn(f[k]) >= 0 && mpz_cmp(f[k], (mpz_ptr)q) < 0, "coefficients are reduced residues");
  }
  H_END();
}
#endif

// ---------------------------------------------------------------- conversion between the two big-number back ends (hex text)
#ifdef H_GCRYCONV
#include <gcrypt.h>
#include "mpz_helper.hh"
H_ENTRY(h_gcry_conv) {
  Z v, w; vfh_mpz(v, 0, 1L << H_CONVBITS);
  gcry_mpi_t m = gcry_mpi_new(32);
  bool ok1 = tmcg_mpz_get_gcry_mpi(m, v);
  vf_assert(ok1, "mpz -> gcry_mpi succeeds for every non-negative integer");
  vf_assert(gcry_mpi_cmp_ui(m, (unsigned long)mpz_get_ui(v)) == 0, "the gcry_mpi holds the same value");
  bool ok2 = tmcg_mpz_set_gcry_mpi(m, w);
  vf_assert(ok2 && mpz_cmp(v, w) == 0, "mpz -> gcry_mpi -> mpz is lossless");
  vf_assert(tmcg_get_gcry_mpi_ui(m) == (size_t)mpz_get_ui(v), "tmcg_get_gcry_mpi_ui returns the value");
  H_END();
}
#endif

// ---------------------------------------------------------------- table powers with the result aliasing the exponent
// (the library itself calls tmcg_mpz_fpowm(table, foo, g, foo, p) / fspowm likewise when it checks published shares)
H_ENTRY(h_fpowm_alias) {
  mpz_t *tab = new mpz_t[TMCG_MAX_FPOWM_T]();
  Z p, m, x, ref;
  table_setup(tab, p, m);
  vfh_mpz(x, -(1L << TMCG_MAX_FPOWM_T) + 1, 1L << TMCG_MAX_FPOWM_T);
  bool constant_time = vf_nondet_u8() & 1;
  mpz_powm(ref, m, x, p);
  if (constant_time) H_TRY(tmcg_mpz_fspowm(tab, x, m, x, p)); else H_TRY(tmcg_mpz_fpowm(tab, x, m, x, p));
  vf_assert(vfh_exc == 0, "table power accepts an exponent within the table limit when the result aliases the exponent");
  vf_assert(mpz_cmp(x, ref) == 0, "table power == m^x mod p when the result object is the exponent object (either sign)");
  H_END();
}
