// vfh_net.hh - ideal "tape" network for the multi-party protocol harnesses (C15, C17 multi-party)
//  ONE real party is run; everything it receives from party j is read from a tape prepared by the harness:
//    vn_bt[j]  values that party j reliably broadcasts (CachinKursawePetzoldShoupRBC::DeliverFrom(m, j) pops the next one),
//    vn_ut[j]  values that party j sends over the private channel (aiounicast::Receive(m, j, direct) pops the next one).
//  An exhausted tape is a delivery failure (DeliverFrom / Receive return false = timeout).
//  Everything the party broadcasts / sends is recorded in vn_ob / vn_os[to] (order preserved).
//  Idealisation (the network classes are the subject of C13/C14): reliable, FIFO per sender, same broadcast value for every
//  receiver, channel identifiers (setID/unsetID) ignored - a tape is one sequence over all nested sub-protocols.
//  Link-level replacements (index field `replace`): NET_REPLACE in index.d/C15.py.
#ifndef VFH_NET_HH
#define VFH_NET_HH
#include "vfh_proto.hh"
#include <cstdlib>
#include "aiounicast.hh"
#include "CachinKursawePetzoldShoupSEABP.hh"
#ifndef VN_PARTIES
#define VN_PARTIES 3
#endif
#ifndef VN_CAP
#define VN_CAP 16            // entries per input tape
#endif
#ifndef VN_OCAP
#define VN_OCAP 24           // entries per output log
#endif
// flat arrays only (see vfh_proto.hh on CBMC and arrays of structs)
static long vn_bt[VN_PARTIES * VN_CAP]; static unsigned vn_bl[VN_PARTIES], vn_bp[VN_PARTIES];
static long vn_ut[VN_PARTIES * VN_CAP]; static unsigned vn_ul[VN_PARTIES], vn_up[VN_PARTIES];
static long vn_ob[VN_OCAP]; static unsigned vn_obn = 0;
static long vn_os[VN_PARTIES * VN_OCAP]; static unsigned vn_osn[VN_PARTIES];
static inline void vn_bpush(unsigned from, long v) { if (vn_bl[from] >= VN_CAP) __vf_model_bound(); vn_bt[from * VN_CAP + vn_bl[from]] = v; vn_bl[from]++; }
static inline void vn_upush(unsigned from, long v) { if (vn_ul[from] >= VN_CAP) __vf_model_bound(); vn_ut[from * VN_CAP + vn_ul[from]] = v; vn_ul[from]++; }
// cut a tape at a symbolic length in [0, current length] (models a party that stops talking)
static inline unsigned vn_bcut(unsigned from) { unsigned l = (unsigned)vf_nondet_below(vn_bl[from] + 1); vn_bl[from] = l; return l; }
static inline unsigned vn_ucut(unsigned from) { unsigned l = (unsigned)vf_nondet_below(vn_ul[from] + 1); vn_ul[from] = l; return l; }
static inline long vn_b(unsigned from, unsigned k) { return vn_bt[from * VN_CAP + k]; }
static inline long vn_u(unsigned from, unsigned k) { return vn_ut[from * VN_CAP + k]; }
static inline long vn_sent(unsigned to, unsigned k) { return vn_os[to * VN_OCAP + k]; }
static inline void vn_reset_out() { vn_obn = 0; for (unsigned k = 0; k < VN_PARTIES; ++k) vn_osn[k] = 0; }

extern "C" {
  void vfstub_rbc_setid(CachinKursawePetzoldShoupRBC *, const std::string &, bool) {}
  void vfstub_rbc_unsetid(CachinKursawePetzoldShoupRBC *, bool) {}
  void vfstub_rbc_broadcast(CachinKursawePetzoldShoupRBC *, mpz_srcptr m, bool) {
    if (vn_obn >= VN_OCAP) __vf_model_bound();
    vn_ob[vn_obn] = vfh_val(m); vn_obn++;
  }
  bool vfstub_rbc_deliverfrom(CachinKursawePetzoldShoupRBC *, mpz_ptr m, size_t from, size_t, time_t) {
    if (from >= VN_PARTIES) return false;
    unsigned p = vn_bp[from];
    if (p >= vn_bl[from]) return false;
    mpz_set_si(m, vn_bt[from * VN_CAP + p]); vn_bp[from] = p + 1;
    return true;
  }
  // the base-class constructor initialises two integers far beyond the toy integer width (2^TMCG_AIO_HIDE_SIZE, 4242424242);
  // they are only used by the real channel implementations, so the constructor is replaced by one that sets n and j
  void vfstub_aiou_ctor(aiounicast *a, size_t n_in, size_t j_in, size_t, time_t, bool, bool, bool) {
    *const_cast<size_t*>(&a->n) = n_in; *const_cast<size_t*>(&a->j) = j_in;
  }
}
class VNetUnicast : public aiounicast {
public:
  VNetUnicast(size_t n_in, size_t j_in);
  virtual bool Send(mpz_srcptr m, const size_t to, const time_t) {
    if (to >= VN_PARTIES) return false;
    if (vn_osn[to] >= VN_OCAP) __vf_model_bound();
    vn_os[to * VN_OCAP + vn_osn[to]] = vfh_val(m); vn_osn[to]++;
    return true;
  }
  virtual bool Send(const std::vector<mpz_srcptr> &, const size_t, const time_t) { return false; }
  virtual bool Receive(mpz_ptr m, size_t &from, const size_t, const time_t) {
    if (from >= VN_PARTIES) return false;
    unsigned p = vn_up[from];
    if (p >= vn_ul[from]) return false;
    mpz_set_si(m, vn_ut[from * VN_CAP + p]); vn_up[from] = p + 1;
    return true;
  }
  virtual bool Receive(std::vector<mpz_ptr> &, size_t &, const size_t, const time_t) { return false; }
  virtual void Reset(const size_t, const bool) {}
};
#pragma clang optimize off
VNetUnicast::VNetUnicast(size_t n_in, size_t j_in) : aiounicast(n_in, j_in) {}
#pragma clang optimize on
static inline VNetUnicast *vn_aiou(size_t n, size_t j) { return new VNetUnicast(n, j); }
// the broadcast object is never constructed (its member functions used by the protocols are all replaced); only n, t, j are read
static inline CachinKursawePetzoldShoupRBC *vn_rbc(size_t n, size_t t, size_t j) {
  CachinKursawePetzoldShoupRBC *r = (CachinKursawePetzoldShoupRBC *)calloc(1, sizeof(CachinKursawePetzoldShoupRBC));
  r->n = n; r->t = t; r->j = j;
  return r;
}

// ---------------------------------------------------------------- oracle arithmetic in the toy group (plain long)
#ifndef H_H
#define H_H ((H_G * H_G) % H_P)
#endif
static inline long vo_mod(long a, long m) { a %= m; if (a < 0) a += m; return a; }
#ifndef VO_EBITS
#define VO_EBITS 4
#endif
static inline long vo_pow(long b, long e, long m) { long r = 1 % m; b = vo_mod(b, m); for (int i = 0; i < VO_EBITS; ++i) { if (e & 1) r = (r * b) % m; e >>= 1; b = (b * b) % m; } return r; }   // 0 <= e < 2^VO_EBITS
static inline bool vo_member(long a) { return a > 0 && a < H_P && vo_pow(a, H_Q, H_P) == 1; }
static inline long vo_commit(long s, long t) { return (vo_pow(H_G, vo_mod(s, H_Q), H_P) * vo_pow(H_H, vo_mod(t, H_Q), H_P)) % H_P; }   // g^s h^t, any sign
// prod_k A_k^(x^k) mod p, k = 0..t (A_k any integer: reduced like mpz_powm does)
static inline long vo_eval(const long *A, unsigned t, long x) { long r = 1, xe = 1; for (unsigned k = 0; k <= t; ++k) { r = (r * vo_pow(A[k], xe, H_P)) % H_P; xe *= x; } return r; }
// f(x) mod q for coefficients c_0..c_t
static inline long vo_poly(const long *c, unsigned t, long x) { long r = 0, xe = 1; for (unsigned k = 0; k <= t; ++k) { r = vo_mod(r + vo_mod(c[k], H_Q) * xe, H_Q); xe = (xe * x) % H_Q; } return r; }
static inline long vo_inv(long a, long m) { a = vo_mod(a, m); for (long y = 1; y < m; ++y) if ((a * y) % m == 1) return y; return 0; }
#endif
