// vfh_net.hh - ideal "tape" network for the multi-party protocol harnesses (C15, C17 multi-party)
//  ONE real party is run; everything it receives from party j is read from a tape prepared by the harness:
//    vn_bt[j]  values that party j reliably broadcasts (CachinKursawePetzoldShoupRBC::DeliverFrom(m, j) pops the next one),
//    vn_ut[j]  values that party j sends over the private channel (aiounicast::Receive(m, j, direct) pops the next one).
//  An exhausted tape is a delivery failure (DeliverFrom / Receive return false = timeout).
//  Everything the party broadcasts / sends is recorded in vn_ob / vn_os[to] (order preserved).
//  Idealisation (the network classes are the subject of C13/C14): reliable, FIFO per sender, same broadcast value for every
//  receiver, channel identifiers (setID/unsetID) ignored - a tape is one sequence over all nested sub-protocols.
//  Link-level replacements (index field `replace`): NET_REPLACE in index.d/C15.py.
#ifndef VFH_NET_HH
#define VFH_NET_HH
#include "vfh_proto.hh"
#include <cstdlib>
#include "aiounicast.hh"
#include "CachinKursawePetzoldShoupSEABP.hh"
#ifndef VN_PARTIES
#define VN_PARTIES 3
#endif
#ifndef VN_CAP
#define VN_CAP 16            // entries per input tape
#endif
#ifndef VN_OCAP
#define VN_OCAP 24           // entries per output log
#endif
// flat arrays only (see vfh_proto.hh on CBMC and arrays of structs)
static long vn_bt[VN_PARTIES * VN_CAP]; static unsigned vn_bl[VN_PARTIES], vn_bp[VN_PARTIES];
static long vn_ut[VN_PARTIES * VN_CAP]; static unsigned vn_ul[VN_PARTIES], vn_up[VN_PARTIES];
static long vn_ob[VN_OCAP]; static unsigned vn_obn = 0;
static long vn_os[VN_PARTIES * VN_OCAP]; static unsigned vn_osn[VN_PARTIES];
static inline void vn_bpush(unsigned from, long v) { if (vn_bl[from] >= VN_CAP) __vf_model_bound(); vn_bt[from * VN_CAP + vn_bl[from]] = v; vn_bl[from]++; }
static inline void vn_upush(unsigned from, long v) { if (vn_ul[from] >= VN_CAP) __vf_model_bound(); vn_ut[from * VN_CAP + vn_ul[from]] = v; vn_ul[from]++; }
// cut a tape at a symbolic length in [0, current length] (models a party that stops talking)
static inline unsigned vn_bcut(unsigned from) { unsigned l = (unsigned)vf_nondet_below(vn_bl[from] + 1); vn_bl[from] = l; return l; }
static inline unsigned vn_ucut(unsigned from) { unsigned l = (unsigned)vf_nondet_below(vn_ul[from] + 1); vn_ul[from] = l; return l; }
static inline long vn_b(unsigned from, unsigned k) { return vn_bt[from * VN_CAP + k]; }
static inline long vn_u(unsigned from, unsigned k) { return vn_ut[from * VN_CAP + k]; }
static inline long vn_sent(unsigned to, unsigned k) { return vn_os[to * VN_OCAP + k]; }
static inline void vn_reset_out() { vn_obn = 0; for (unsigned k = 0; k < VN_PARTIES; ++k) vn_osn[k] = 0; }

extern "C" {
  void vfstub_rbc_setid(CachinKursawePetzoldShoupRBC *, const std::string &, bool) {}
  void vfstub_rbc_unsetid(CachinKursawePetzoldShoupRBC *, bool) {}
  void vfstub_rbc_broadcast(CachinKursawePetzoldShoupRBC *, mpz_srcptr m, bool) {
    if (vn_obn >= VN_OCAP) __vf_model_bound();
    vn_ob[vn_obn] = vfh_val(m); vn_obn++;
  }
  bool vfstub_rbc_deliverfrom(CachinKursawePetzoldShoupRBC *, mpz_ptr m, size_t from, size_t, time_t) {
    if (from >= VN_PARTIES) return false;
    unsigned p = vn_bp[from];
    if (p >= vn_bl[from]) return false;
    mpz_set_si(m, vn_bt[from * VN_CAP + p]); vn_bp[from] = p + 1;
    return true;
  }
  // the base-class constructor initialises two integers far beyond the toy integer width (2^TMCG_AIO_HIDE_SIZE, 4242424242);
  // they are only used by the real channel implementations, so the constructor is replaced by one that sets n and j
  void vfstub_aiou_ctor(aiounicast *a, size_t n_in, size_t j_in, size_t, time_t, bool, bool, bool) {
    *const_cast<size_t*>(&a->n) = n_in; *const_cast<size_t*>(&a->j) = j_in;
  }
}
class VNetUnicast : public aiounicast {
public:
  VNetUnicast(size_t n_in, size_t j_in);
  virtual bool Send(mpz_srcptr m, const size_t to, const time_t) {
    if (to >= VN_PARTIES) return false;
    if (vn_osn[to] >= VN_OCAP) __vf_model_bound();
    vn_os[to * VN_OCAP + vn_osn[to]] = vfh_val(m); vn_osn[to]++;
    return true;
  }
  virtual bool Send(const std::vector<mpz_srcptr> &, const size_t, const time_t) { return false; }
  virtual bool Receive(mpz_ptr m, size_t &from, const size_t, const time_t) {
    if (from >= VN_PARTIES) return false;
    unsigned p = vn_up[from];
    if (p >= vn_ul[from]) return false;
    mpz_set_si(m, vn_ut[from * VN_CAP + p]); vn_up[from] = p + 1;
    return true;
  }
  virtual bool Receive(std::vector<mpz_ptr> &, size_t &, const size_t, const time_t) { return false; }
  virtual void Reset(const size_t, const bool) {}
};
#pragma clang optimize off
VNetUnicast::VNetUnicast(size_t n_in, size_t j_in) : aiounicast(n_in, j_in) {}
#pragma clang optimize on
static inline VNetUnicast *vn_aiou(size_t n, size_t j) { return new VNetUnicast(n, j); }
// the broadcast object is never constructed (its member functions used by the protocols are all replaced); only n, t, j are read
static inline CachinKursawePetzoldShoupRBC *vn_rbc(size_t n, size_t t, size_t j) {
  CachinKursawePetzoldShoupRBC *r = (CachinKursawePetzoldShoupRBC *)calloc(1, sizeof(CachinKursawePetzoldShoupRBC));
  r->n = n; r->t = t; r->j = j;
  return r;
}

// ---------------------------------------------------------------- oracle arithmetic in the toy group
// Written for the solver: 32-bit unsigned arithmetic, compile-time tables for g^e, h^e and group membership (a 64-bit '%' costs
// about as much as a whole model-GMP exponentiation), no division where a conditional subtraction does.
#ifndef H_H
#define H_H ((H_G * H_G) % H_P)
#endif
constexpr unsigned vo_cpow(unsigned b, unsigned e, unsigned m) { return e == 0 ? 1 % m : (vo_cpow(b, e - 1, m) * (b % m)) % m; }
#define VO_T24(F) { F(0), F(1), F(2), F(3), F(4), F(5), F(6), F(7), F(8), F(9), F(10), F(11), F(12), F(13), F(14), F(15), F(16), F(17), F(18), F(19), F(20), F(21), F(22), F(23) }
#if H_P > 24
#error "oracle tables hold 24 entries"
#endif
#define VO_GE(k) (unsigned char)vo_cpow(H_G, k, H_P)
#define VO_HE(k) (unsigned char)vo_cpow(H_H, k, H_P)
#define VO_ME(k) (unsigned char)((k) > 0 && (k) < H_P && vo_cpow(k, H_Q, H_P) == 1)
static const unsigned char vo_gp[24] = VO_T24(VO_GE), vo_hp[24] = VO_T24(VO_HE), vo_mem[24] = VO_T24(VO_ME);
// a mod m for |a| < 2^15 (any sign)
static inline unsigned vo_mod(long a, unsigned m) { int r = (int)a % (int)m; if (r < 0) r += (int)m; return (unsigned)r; }
// a mod q for -q <= a <= 2q (no division)
static inline unsigned vo_modq(long a) { int r = (int)a; if (r < 0) r += H_Q; if (r < 0) r += H_Q; if (r >= H_Q) r -= H_Q; if (r >= H_Q) r -= H_Q; return (unsigned)r; }
static inline unsigned vo_mul(unsigned a, unsigned b) { return (a * b) % (unsigned)H_P; }       // a, b < p
static inline unsigned vo_mulq(unsigned a, unsigned b) { return (a * b) % (unsigned)H_Q; }
static inline bool vo_member(long a) { return a > 0 && a < H_P && vo_mem[a] != 0; }
// g^s h^t for exponents of either sign, -q <= s, t <= 2q
static inline long vo_commit(long s, long t) { return (long)vo_mul(vo_gp[vo_modq(s)], vo_hp[vo_modq(t)]); }
static inline long vo_gpow(long s) { return (long)vo_gp[vo_modq(s)]; }
// b^e mod p for a small concrete-bounded e (e <= 16), b any integer with |b| < 2^15 (reduced like mpz_powm does)
static inline unsigned vo_pow(long b, unsigned e) { unsigned r = 1 % H_P, bb = vo_mod(b, H_P); for (unsigned i = 0; i < 16 && i < e; ++i) r = vo_mul(r, bb); return r; }
// prod_k A_k^(x^k) mod p, k = 0..t  (x small and concrete in every harness)
static inline long vo_eval(const long *A, unsigned t, unsigned x) { unsigned r = 1, xe = 1; for (unsigned k = 0; k <= t; ++k) { r = vo_mul(r, vo_pow(A[k], xe)); xe *= x; } return (long)r; }
// f(x) mod q for coefficients c_0..c_t in [0, q)
static inline long vo_poly(const long *c, unsigned t, unsigned x) { unsigned r = 0, xe = 1 % H_Q; for (unsigned k = 0; k <= t; ++k) { r = (r + vo_mulq((unsigned)c[k], xe)) % (unsigned)H_Q; xe = vo_mulq(xe, x % H_Q); } return (long)r; }
static inline long vo_inv(long a, unsigned m) { unsigned aa = vo_mod(a, m); for (unsigned y = 1; y < m; ++y) if ((aa * y) % m == 1) return (long)y; return 0; }
#endif
