// vfh.hh - helpers shared by all harnesses
#ifndef VFH_HH
#define VFH_HH
#include "libTMCG_config.h"
#include "vf.h"
#include <vector>
#include <string>
#define H_ENTRY(name) extern "C" void name(void)
// final statement of every harness: reachability witness
#define H_END() vf_witness("end")
// run a statement that may throw; vfh_exc = 0 none, 1 std::exception family, 2 bool, 3 anything else
#include <stdexcept>
static int vfh_exc = 0;
#define H_TRY(stmt) do { vfh_exc = 0; try { stmt; } catch (std::exception &e_) { vfh_exc = 1; } catch (bool b_) { vfh_exc = 2; } catch (...) { vfh_exc = 3; } } while (0)
// length of a symbolic buffer: a slice fixes it (-DH_LEN=n: allocation sizes stay concrete, one query per length),
// otherwise it is itself symbolic in [0, maxlen]
#ifdef H_LEN
static inline size_t vfh_len(size_t maxlen) { return (size_t)(H_LEN) <= maxlen ? (size_t)(H_LEN) : maxlen; }
#else
static inline size_t vfh_len(size_t maxlen) { return (size_t)vf_nondet_below(maxlen + 1); }
#endif
static inline void vfh_bytes(std::vector<unsigned char> &v, size_t maxlen) {
  size_t n = vfh_len(maxlen);
  for (size_t i = 0; i < n; ++i) v.push_back(vf_nondet_u8());
}
#endif
