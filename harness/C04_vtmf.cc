// C04 (sigma protocols): the real prover code run with a witness that does not fit a false statement is accepted only in the
// exact exceptional set "challenge == 0 (mod q)" (probability 1/q at toy size, negligible otherwise).
#include "vfh_proto.hh"
#include "BarnettSmartVTMF_dlog.hh"
#include "mpz_spowm.hh"
#ifndef H_P
#define H_P 7
#define H_Q 3
#define H_G 2
#define H_K 2
#endif
static BarnettSmartVTMF_dlog *mkvtmf() {
  BarnettSmartVTMF_dlog *v = new BarnettSmartVTMF_dlog(2, 2, false, false);
  mpz_set_ui(v->p, H_P); mpz_set_ui(v->q, H_Q); mpz_set_ui(v->g, H_G); mpz_set_ui(v->k, H_K);
  tmcg_mpz_fpowm_precompute(v->fpowm_table_g, v->g, v->p, mpz_sizeinbase(v->q, 2L));
  return v;
}
static long first_token(std::stringstream &t) { std::string s = t.str(); std::stringstream c(s); Z x; c >> (mpz_ptr)x; return x.get(); }

// equality of discrete logs claimed for x = gg^alpha, y = hh^beta with beta != alpha
H_ENTRY(h_w_cp) {
  BarnettSmartVTMF_dlog *a = mkvtmf();
  Z alpha, beta, gg, hh, x, y, e1, e2;
  vfh_mpz(alpha, 0, H_Q); vfh_mpz(beta, 0, H_Q); vf_assume(mpz_cmp(alpha, beta) != 0);
  vfh_mpz(e1, 1, H_Q); vfh_mpz(e2, 1, H_Q);
  mpz_powm(gg, a->g, e1, a->p); mpz_powm(hh, a->g, e2, a->p);
  mpz_powm(x, gg, alpha, a->p); mpz_powm(y, hh, beta, a->p);
  std::stringstream t; a->CP_Prove(x, y, gg, hh, alpha, t, false);
  long c = first_token(t);
  vfh_forbid_on = true; vfh_forbid = c;
  bool ok = true; H_TRY(ok = a->CP_Verify(x, y, gg, hh, t, false));
  vf_assert(vfh_exc == 0, "CP_Verify does not throw");
  if (ok) vf_assert(c % H_Q == 0, "false equality-of-dlog statement accepted only if the challenge is 0 mod q");
  H_END();
}
// a mask that changes the message: (c_1, c_2) masks m, the proof is presented for m2 != m
H_ENTRY(h_w_mask) {
  BarnettSmartVTMF_dlog *a = mkvtmf();
  a->KeyGenerationProtocol_GenerateKey(); a->KeyGenerationProtocol_Finalize();
  vf_assume(mpz_cmp_ui(a->h, 1) != 0);       // degenerate key x = 0 makes every statement true
  Z m, m2, c1, c2, r, e, e2;
  vfh_mpz(e, 0, H_Q); vfh_mpz(e2, 0, H_Q); vf_assume(mpz_cmp(e, e2) != 0);
  mpz_powm(m, a->g, e, a->p); mpz_powm(m2, a->g, e2, a->p);
  a->VerifiableMaskingProtocol_Mask(m, c1, c2, r);
  std::stringstream t; a->VerifiableMaskingProtocol_Prove(m2, c1, c2, r, t);
  long c = first_token(t);
  vfh_forbid_on = true; vfh_forbid = c;
  bool ok = true; H_TRY(ok = a->VerifiableMaskingProtocol_Verify(m2, c1, c2, t));
  vf_assert(vfh_exc == 0, "masking verifier does not throw");
  if (ok) vf_assert(c % H_Q == 0, "a mask of another message is accepted only if the challenge is 0 mod q");
  H_END();
}
// a decryption share computed with another secret key than the published one
H_ENTRY(h_w_decrypt) {
  BarnettSmartVTMF_dlog *a = mkvtmf(), *b = mkvtmf();
  a->KeyGenerationProtocol_GenerateKey(); b->KeyGenerationProtocol_GenerateKey();
  std::stringstream ka; a->KeyGenerationProtocol_PublishKey(ka);
  vf_assume(b->KeyGenerationProtocol_UpdateKey(ka));
  b->KeyGenerationProtocol_Finalize();
  long other = vfh_range(0, H_Q); vf_assume(mpz_cmp_ui(a->x_i, (unsigned long)other) != 0);
  mpz_set_si(a->x_i, other);                 // a now answers with a key that is not the one it published
  Z c1, e; vfh_mpz(e, 1, H_Q); mpz_powm(c1, a->g, e, a->p);
  std::stringstream t; a->VerifiableDecryptionProtocol_Prove(c1, t);
  std::string ts = t.str(); std::stringstream t3(ts); Z d, cc; t3 >> (mpz_ptr)d >> (mpz_ptr)d >> (mpz_ptr)cc;   // d_i, h_i, c
  long c = cc.get();
  vfh_forbid_on = true; vfh_forbid = c;
  b->VerifiableDecryptionProtocol_Verify_Initialize(c1);
  bool ok = true; H_TRY(ok = b->VerifiableDecryptionProtocol_Verify_Update(c1, t));
  vf_assert(vfh_exc == 0, "decryption-share verifier does not throw");
  if (ok) vf_assert(c % H_Q == 0, "a share computed with another key is accepted only if the challenge is 0 mod q");
  H_END();
}
