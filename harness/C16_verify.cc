// C16: the library's signature verifiers accept exactly the triples the textbook equations and range conditions accept
#include "vfh_proto.hh"
#include "CanettiGennaroJareckiKrawczykRabinASTC.hh"
#include "GennaroJareckiKrawczykRabinDKG.hh"
#include "mpz_shash.hh"
#ifndef H_P
#define H_P 23
#define H_Q 11
#define H_G 2
#define H_K 2
#endif
#ifndef H_H
#define H_H ((H_G * H_G) % H_P)
#endif
static long powmod(long b, long e, long m) { long r = 1 % m; b %= m; if (b < 0) b += m; for (int i = 0; i < 12; ++i) { if (e & 1) r = (r * b) % m; e >>= 1; b = (b * b) % m; } return r; }
static long invmod(long a, long m) { a %= m; if (a < 0) a += m; for (long y = 1; y < m; ++y) if ((a * y) % m == 1) return y; return 0; }

H_ENTRY(h_dss_verify) {
  Z P(H_P), Q(H_Q), G(H_G), Hh(H_H);
  CanettiGennaroJareckiKrawczykRabinDSS *dss = new CanettiGennaroJareckiKrawczykRabinDSS(3, 1, 0, P, Q, G, Hh, 2, 2, false, false);
  long x = vfh_range(1, H_Q);                       // any non-trivial public key y = g^x
  long y = powmod(H_G, x, H_P); mpz_set_si(dss->y, y);
  long m = vfh_range(-2, 2 * H_Q + 2), r = vfh_range(-2, 2 * H_Q + 2), s = vfh_range(-2, 2 * H_Q + 2);
  Z M(m), R(r), S(s);
  bool got = false; H_TRY(got = dss->Verify(M, R, S));
  vf_assert(vfh_exc == 0, "DSS::Verify returns (no exception)");
  bool spec = false;
  if (r > 0 && r < H_Q && s > 0 && s < H_Q) {
    long w = invmod(s, H_Q);
    long mm = ((m % H_Q) + H_Q) % H_Q;
    long u1 = (mm * w) % H_Q, u2 = (r * w) % H_Q;
    long v = ((powmod(H_G, u1, H_P) * powmod(y, u2, H_P)) % H_P) % H_Q;
    spec = (v == r);
  }
  vf_assert(got == spec, "DSS::Verify(m,r,s) <=> 0<r<q, 0<s<q, r == (g^(m/s) y^(r/s) mod p) mod q");
  H_END();
}

H_ENTRY(h_nts_verify) {
  Z P(H_P), Q(H_Q), G(H_G), Hh(H_H);
  GennaroJareckiKrawczykRabinNTS *nts = new GennaroJareckiKrawczykRabinNTS(3, 1, 0, P, Q, G, Hh, 2, 2, false, false);
  long x = vfh_range(1, H_Q);
  long y = powmod(H_G, x, H_P); mpz_set_si(nts->y, y);
  long m = vfh_range(0, 1 << H_DBITS), c = vfh_range(-1, (1 << H_DBITS) + 1), s = vfh_range(-H_Q, 2 * H_Q + 1);
  Z M(m), C(c), S(s);
  bool got = false; H_TRY(got = nts->Verify(M, C, S));
  vf_assert(vfh_exc == 0, "NTS::Verify returns (no exception)");
  // textbook Schnorr: c == H(m, g^s * y^(-c) mod p)
  long ss = ((s % H_Q) + H_Q) % H_Q, cc = ((c % H_Q) + H_Q) % H_Q;
  long rr = (powmod(H_G, ss, H_P) * powmod(invmod(y, H_P), cc, H_P)) % H_P;
  Z RR(rr), hh; tmcg_mpz_shash(hh, 2, (mpz_srcptr)M, (mpz_srcptr)RR);
  bool spec = (s >= 0 && s < H_Q) && (hh.get() == c);
  vf_assert(got == spec, "NTS::Verify(m,c,s) <=> 0 <= s < q and c == H(m, g^s y^(-c) mod p)");
  H_END();
}
