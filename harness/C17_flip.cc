// C17: two-party coin flip (JareckiLysyanskayaEDCF::Flip_twoparty over RVSS::Share_twoparty)
//  honest run (transcript as a fixed point): both accept, both output a_0 + a_1 mod q
//  arbitrary peer: acceptance implies the peer's opening matches its earlier commitment and the output is own share + peer share
//  order: the own opening is only written after a valid commitment of the peer has been read
#include "vfh_proto.hh"
#include "JareckiLysyanskayaASTC.hh"
#ifndef H_P
#define H_P 11
#define H_Q 5
#define H_G 3
#define H_K 2
#endif
#define H_H ((H_G * H_G) % H_P)
static JareckiLysyanskayaEDCF *mk() { Z P(H_P), Q(H_Q), G(H_G), Hh(H_H); return new JareckiLysyanskayaEDCF(2, 0, P, Q, G, Hh, 2, 2); }
static long powmod(long b, long e, long m) { long r = 1 % m; b %= m; if (b < 0) b += m; e %= (m - 1); if (e < 0) e += (m - 1); for (int i = 0; i < 8; ++i) { if (e & 1) r = (r * b) % m; e >>= 1; b = (b * b) % m; } return r; }
static bool member(long a) { return a > 0 && a < H_P && powmod(a, H_Q, H_P) == 1; }
static unsigned ntokens(std::stringstream &s) { return (unsigned)(s.str().size() / (2 + H_TOKBYTES + 1)); }

H_ENTRY(h_flip_honest) {
  // both parties are run twice with identical coins: a first, truncated run yields the messages each one sends before it has
  // to read (its commitment, then - given the peer's commitment - its opening); the second run sees the complete peer transcript
  JareckiLysyanskayaEDCF *p0 = mk(), *p1 = mk();
  std::stringstream none, o0a, o1a, o0, o1, err; Z a0, a1, t;
  unsigned c0 = vfh_ncoins;
  H_TRY(p0->Flip_twoparty(0, t, none, o0a, err, false));                 // P0: writes C_0, finds nothing to read
  unsigned c1 = vfh_ncoins;
  std::string m0 = o0a.str(); std::stringstream i1a(m0);
  H_TRY(p1->Flip_twoparty(1, t, i1a, o1a, err, false));                  // P1: writes C_1, reads C_0, writes its opening, finds nothing more
  unsigned c2 = vfh_ncoins;
  std::string m1 = o1a.str(); std::stringstream i0(m1);
  vfh_replay_coins(c0, c1);
  bool ok0 = false; H_TRY(ok0 = p0->Flip_twoparty(0, a0, i0, o0, err, false));   // P0 again, same coins, complete transcript of P1
  vf_assert(vfh_exc == 0 && ok0, "honest P0 accepts");
  std::string m0full = o0.str(); std::stringstream i1(m0full);
  vfh_replay_coins(c1, c2);
  bool ok1 = false; H_TRY(ok1 = p1->Flip_twoparty(1, a1, i1, o1, err, false));   // P1 again, same coins, complete transcript of P0
  vf_assert(vfh_exc == 0 && ok1, "honest P1 accepts");
  vf_assert(mpz_cmp(a0, a1) == 0, "both parties output the same coin");
  Z sum; mpz_add(sum, p0->rvss->a_i, p1->rvss->a_i); mpz_mod(sum, sum, p0->q);
  vf_assert(mpz_cmp(a0, sum) == 0, "the coin is the sum of both shares modulo q");
  H_END();
}

H_ENTRY(h_flip_adversary) {
  JareckiLysyanskayaEDCF *p0 = mk();
  long C = vfh_range(-1, H_P + 2), a = vfh_range(-2 * H_Q, 2 * H_Q + 1), ah = vfh_range(-2 * H_Q, 2 * H_Q + 1);
  unsigned ntok = (unsigned)vf_nondet_below(4);
  std::stringstream in0, out0, err; if (ntok > 0) vfh_put(in0, C); if (ntok > 1) vfh_put(in0, a); if (ntok > 2) vfh_put(in0, ah);
  Z coin; bool ok = false;
  H_TRY(ok = p0->Flip_twoparty(0, coin, in0, out0, err, false));
  // a missing value makes the stream operator throw std::runtime_error, which leaves the function: a clean refusal
  vf_assert(vfh_exc == 0 || vfh_exc == 1, "an arbitrary peer obtains a result or a standard exception");
  if (vfh_exc == 0 && ok) {
    vf_assert(ntok == 3 && member(C), "accepted only with a complete transcript and a commitment in the group");
    vf_assert(a > -H_Q && a < H_Q && ah > -H_Q && ah < H_Q, "accepted openings are in range");
    vf_assert((powmod(H_G, a, H_P) * powmod(H_H, ah, H_P)) % H_P == C, "accepted opening matches the commitment received earlier");
    long own = p0->rvss->a_i[0]._mp_size * (long)mpz_get_ui(p0->rvss->a_i);
    vf_assert(coin.get() == ((own + a) % H_Q + H_Q) % H_Q, "output is own share plus the peer's opened share modulo q");
  }
  // order of moves: the own opening (tokens 2 and 3 of the output) is written only after a valid peer commitment was read
  if (ntok == 0 || !member(C)) vf_assert(ntokens(out0) == 1, "own share is not revealed before a valid commitment of the peer was received");
  H_END();
}
