// C12: arbitrary bytes into the OpenPGP leaf decoders - no memory error, abort, non-termination.
// The obligations are CBMC's pointer/bounds checks, library assert()/abort() reachability, the iterator-range
// checks of ministl and the unwinding assertions; the harness only has to drive the real functions.
#include "vfh.hh"
#include <cstring>
#include "CallasDonnerhackeFinneyShawThayerRFC4880.hh"
typedef CallasDonnerhackeFinneyShawThayerRFC4880 PGP;
#ifndef H_MAXLEN
#define H_MAXLEN 8
#endif

H_ENTRY(h_subpacket_decode) {
  tmcg_openpgp_octets_t in;
  vfh_bytes(in, H_MAXLEN);
  tmcg_openpgp_packet_ctx_t ctx;
  memset(&ctx, 0, sizeof(ctx));
  size_t before = in.size();
  tmcg_openpgp_byte_t r = 0; H_TRY(r = PGP::SubpacketDecode(in, 0, ctx));
  vf_assert(vfh_exc == 0 || vfh_exc == 1, "only standard exceptions may leave SubpacketDecode");
  if (vfh_exc == 0 && r != 0) vf_assert(in.size() < before, "a decoded subpacket is consumed from the input");
  H_END();
}

H_ENTRY(h_body_extract) {
  tmcg_openpgp_octets_t in, out;
  vfh_bytes(in, H_MAXLEN);
  tmcg_openpgp_byte_t r = 0; H_TRY(r = PGP::PacketBodyExtract(in, 0, out));
  vf_assert(vfh_exc == 0 || vfh_exc == 1, "only standard exceptions may leave PacketBodyExtract");
  if (vfh_exc == 0 && r != 0) vf_assert(out.size() <= in.size(), "extracted body is not longer than the input");
  H_END();
}

H_ENTRY(h_string_decode) {
  tmcg_openpgp_octets_t in;
  vfh_bytes(in, H_MAXLEN);
  std::string out;
  size_t r = 0; H_TRY(r = PGP::PacketStringDecode(in, out));
  vf_assert(vfh_exc == 0 || vfh_exc == 1, "only standard exceptions may leave PacketStringDecode");
  if (vfh_exc == 0) vf_assert(r <= in.size(), "consumed length is within the input");
  H_END();
}

H_ENTRY(h_radix64_decode) {
  size_t n = vfh_len(H_MAXLEN);
  std::string s;
  for (size_t i = 0; i < n; ++i) s += (char)vf_nondet_u8();
  tmcg_openpgp_octets_t out;
  H_TRY(PGP::Radix64Decode(s, out));
  vf_assert(vfh_exc == 0 || vfh_exc == 1, "only standard exceptions may leave Radix64Decode");
  if (vfh_exc == 0) vf_assert(out.size() <= 3 * ((n + 3) / 4), "decoded size bounded by input size");
  H_END();
}

H_ENTRY(h_mpi_decode) {
  tmcg_openpgp_octets_t in;
  vfh_bytes(in, H_MAXLEN);
  gcry_mpi_t out = gcry_mpi_new(8);
  size_t r = 0, sum = 0; H_TRY(r = PGP::PacketMPIDecode(in, out, sum));
  vf_assert(vfh_exc == 0 || vfh_exc == 1, "only standard exceptions may leave PacketMPIDecode");
  if (vfh_exc == 0) vf_assert(r <= in.size(), "consumed length is within the input");
  H_END();
}

// the top-level packet parser: header + dispatch to every PacketDecodeTagN
H_ENTRY(h_packet_decode) {
  tmcg_openpgp_octets_t in, cur;
#ifdef H_TAGBYTE
  in.push_back((tmcg_openpgp_byte_t)H_TAGBYTE);          // slice: the packet tag octet is fixed, the rest is symbolic
  { size_t n = vfh_len(H_MAXLEN); for (size_t i = 1; i < n; ++i) in.push_back(vf_nondet_u8()); }
#else
  vfh_bytes(in, H_MAXLEN);
#endif
  tmcg_openpgp_packet_ctx_t ctx;
  std::vector<gcry_mpi_t> qual, xq, v_i; std::vector<std::string> capl; std::vector< std::vector<gcry_mpi_t> > c_ik;
  tmcg_openpgp_notations_t nots; tmcg_openpgp_multiple_octets_t emb, rfp;
  size_t before = in.size();
  tmcg_openpgp_byte_t r = 0; H_TRY(r = PGP::PacketDecode(in, 0, ctx, cur, qual, xq, capl, v_i, c_ik, nots, emb, rfp));
  vf_assert(vfh_exc == 0 || vfh_exc == 1, "only standard exceptions may leave PacketDecode");
  if (vfh_exc == 0 && r != 0 && r != 0xFA && r != 0xFB && r != 0xFC && r != 0xFD && r != 0xFE) vf_assert(in.size() < before && cur.size() <= before, "a decoded packet is consumed from the input");
  H_END();
}
