// vfh_gmp.hh - harness helpers around mpz values and the coin stubs
#ifndef VFH_GMP_HH
#define VFH_GMP_HH
#include "vfh.hh"
#include <gmp.h>
// symbolic integer in [lo, hi)  (lo may be negative)
static inline long vfh_range(long lo, long hi) {
  unsigned long span = (unsigned long)(hi - lo);
  unsigned long v = vf_nondet_below(span);
  return lo + (long)v;
}
static inline void vfh_mpz(mpz_ptr r, long lo, long hi) { mpz_set_si(r, vfh_range(lo, hi)); }
// ---- coin stubs: replace the library's samplers by "next coin": an arbitrary value in the documented range.
// Every draw is a logged symbolic input; the number of draws per harness is bounded (rejection loops), stated as K.
#ifndef H_MAXDRAWS
#define H_MAXDRAWS 6
#endif
static unsigned vfh_draws = 0; static unsigned long vfh_lastcoin = 0;
// a harness may fix the next coin(s) to concrete values (slices): consumed before symbolic draws
static long vfh_fixed[16]; static unsigned vfh_nfixed = 0, vfh_fixed_used = 0;
// log of the coins drawn so far (so that a harness can run a party twice with identical coins)
static unsigned long vfh_coinlog[24]; static unsigned vfh_ncoins = 0;
static inline void vfh_replay_coins(unsigned from, unsigned to) { vfh_nfixed = 0; vfh_fixed_used = 0; for (unsigned i = from; i < to && vfh_nfixed < 16; ++i) vfh_fixed[vfh_nfixed++] = (long)vfh_coinlog[i]; }
static inline void vfh_fix_next(long v) { vfh_fixed[vfh_nfixed++] = v; }
static inline void vfh_coin_mod(mpz_ptr r, mpz_srcptr m) {
  vf_assume(++vfh_draws <= H_MAXDRAWS);
  unsigned long mm = mpz_get_ui(m);
  vf_assume(mpz_sgn(m) > 0);
  if (vfh_fixed_used < vfh_nfixed) { vfh_lastcoin = (unsigned long)vfh_fixed[vfh_fixed_used++] % mm; }
  else if (mm == 1) vfh_lastcoin = 0;     // the only value in [0,1): stays concrete
  else vfh_lastcoin = vf_nondet_below(mm);
#ifdef H_COINS_UNITS
  { mpz_t g_, v_; mpz_init(g_); mpz_init_set_ui(v_, vfh_lastcoin); mpz_gcd(g_, v_, m); vf_assume(mpz_cmp_ui(g_, 1) == 0); }   // stated bound: rejection sampling of units succeeds at the first draw
#endif
  if (vfh_ncoins < 24) vfh_coinlog[vfh_ncoins] = vfh_lastcoin; ++vfh_ncoins;
  mpz_set_ui(r, vfh_lastcoin);
}
static inline void vfh_coin_bits(mpz_ptr r, unsigned long bits) {
  vf_assume(++vfh_draws <= H_MAXDRAWS);
  vf_assume(bits < 63);
  mpz_set_ui(r, vf_nondet_below(1UL << bits));
}
extern "C" {
  // [0, m)
  void vfstub_randomm(mpz_ptr r, mpz_srcptr m) { vfh_coin_mod(r, m); }
  // [0, 2^size)
  void vfstub_randomb(mpz_ptr r, unsigned long size) { vfh_coin_bits(r, size); }
  // raw machine word
  unsigned long vfstub_random_ui(void) { vf_assume(++vfh_draws <= H_MAXDRAWS); return vf_nondet_u64(); }
}
#define VFH_COIN_REPLACE {'tmcg_mpz_srandomm': 'vfstub_randomm'}
#endif
