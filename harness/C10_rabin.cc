// C10: Rabin key operations (TMCG_SecretKey / TMCG_PublicKey) on hand-assembled toy Blum keys.
//
// What is modelled around the real code (all listed in index.d/C10.py `assumptions`, details in notes/C10.md):
//  * digests: gcry_md_get_algo_dlen() == H_MD (1 byte); tmcg_h / tmcg_g are ONE memoised nondeterministic function each
//    from byte strings to byte strings (random oracle restricted to the calls made; flat tables, DESIGN A.8)
//  * numbers inside texts ("sig|keyid|VALUE|", key text, NIZK text) travel as out-of-band tokens "@k": operator<<(mpz)
//    writes '@' and a table index, mpz_set_str() reads the table. The text stays CONCRETE while the value is symbolic
//    (the base-62 codec itself is C11). The oracle keys substitute the token by its value, so that hashing a text
//    is a function of the numbers printed in it.
//  * tmcg_mpz_srandom_mod(4) (choice of the root) and gcry_randomize (pad) are logged symbolic sources.
// The key is concrete per slice: H_P, H_Q (primes = 3 mod 4), H_Y (non-residue with Jacobi symbol +1).
#include "vfh_gmp.hh"
#include "TMCG_SecretKey.hh"
#include "TMCG_PublicKey.hh"
#include "mpz_sqrtm.hh"
#include "mpz_shash.hh"
#include <string>
#include <sstream>
#include <iostream>

#ifndef H_P
#define H_P 4099
#define H_Q 4111
#define H_Y 3
#endif
#ifndef H_MD
#define H_MD 1                 /* digest length in bytes of the modelled TMCG_GCRY_MD_ALGO */
#endif
#ifndef H_MAXDRAWS10
#define H_MAXDRAWS10 2         /* sign(): at most this many pad draws ("try again until the padded value is a residue") */
#endif

struct Z { mpz_t v; Z() { mpz_init(v); } Z(long x) { mpz_init_set_si(v, x); } ~Z() { mpz_clear(v); } operator mpz_ptr() { return v; } operator mpz_srcptr() const { return v; }
           long get() const { return mpz_sgn(v) * (long)mpz_get_ui(v); } private: Z(const Z&); Z& operator=(const Z&); };
static inline long vfh_val(mpz_srcptr a) { return mpz_sgn(a) * (long)mpz_get_ui(a); }

extern "C" unsigned int gcry_md_get_algo_dlen(int algo) { (void)algo; return H_MD; }

// ---------------------------------------------------------------- number tokens
#define TOK_MAX 40
static __mpz_struct tok_mpz[TOK_MAX]; static unsigned tok_n = 0;       // copies of the printed integers (structural identity: mpz_set both ways)
extern "C" void __vf_model_bound(void);
static inline unsigned tok_new_mpz(mpz_srcptr v) { if (tok_n >= TOK_MAX) __vf_model_bound(); unsigned k = tok_n++; mpz_init(&tok_mpz[k]); mpz_set(&tok_mpz[k], v); return k; }
static inline long tok_val(unsigned k) { return vfh_val(&tok_mpz[k]); }
std::ostream& vfstub10_mpz_out(std::ostream& out, mpz_srcptr v) {
  unsigned k = tok_new_mpz(v);
  out.put('@'); out.put((char)('0' + k));
  return out;
}
static inline std::string tok_text(long v) { Z t(v); unsigned k = tok_new_mpz(t); std::string s; s.push_back('@'); s.push_back((char)('0' + k)); return s; }
// mpz_set_str: "@k" -> table value; anything else is parsed as GMP does (digits of the base, optional '-', white space skipped)
extern "C" int vfstub10_set_str(mpz_ptr r, const char *s, int base) {
  if (s[0] == '@') {
    unsigned k = (unsigned)((unsigned char)s[1] - '0');
    if (s[1] == 0 || s[2] != 0 || k >= tok_n) return -1;
    mpz_set(r, &tok_mpz[k]); return 0;
  }
  size_t i = 0; bool neg = false; unsigned long v = 0; size_t nd = 0;
  if (base < 2 || base > 62) return -1;
  while (s[i] == ' ' || s[i] == '\t' || s[i] == '\n') ++i;
  if (s[i] == '-') { neg = true; ++i; }
  for (; s[i] != 0; ++i) {
    unsigned char c = (unsigned char)s[i]; int d;
    if (c == ' ' || c == '\t' || c == '\n') continue;
    if (c >= '0' && c <= '9') d = c - '0';
    else if (base <= 36) { if (c >= 'a' && c <= 'z') d = c - 'a' + 10; else if (c >= 'A' && c <= 'Z') d = c - 'A' + 10; else return -1; }
    else { if (c >= 'A' && c <= 'Z') d = c - 'A' + 10; else if (c >= 'a' && c <= 'z') d = c - 'a' + 36; else return -1; }
    if (d >= base) return -1;
    if (v > (1UL << 40)) __vf_model_bound();
    v = v * (unsigned long)base + (unsigned long)d; ++nd;
  }
  if (nd == 0) return -1;
  mpz_set_ui(r, v); if (neg) mpz_neg(r, r);
  return 0;
}

// ---------------------------------------------------------------- hash oracles
// one table for both functions; key = (kind, output length, canonical input), canonical input = bytes with "@k" replaced by
// (TOK_BASE + value) where the input is a text (see or_text()).
#ifndef OR_MAX
#define OR_MAX 8
#endif
#ifndef OR_KEYMAX
#define OR_KEYMAX 64
#endif
#define OR_OUTMAX 4
#define TOK_BASE (1L << 40)
static unsigned or_n = 0; static unsigned or_kind[OR_MAX], or_klen[OR_MAX], or_olen[OR_MAX];
static long or_key[OR_MAX * OR_KEYMAX]; static unsigned char or_out[OR_MAX * OR_OUTMAX];
static unsigned or_fresh_h = 0, or_fresh_g = 0, or_calls_h = 0;      // number of NEW points queried (per function), H calls
static void oracle(unsigned kind, unsigned char *out, size_t osize, const unsigned char *in, size_t isize, size_t rawtail, bool text) {
  long key[OR_KEYMAX]; unsigned k = 0;
  if (osize > OR_OUTMAX) __vf_model_bound();
  size_t i = 0, tlen = (text && isize >= rawtail) ? isize - rawtail : 0;     // [0, tlen) is text, the rest raw bytes
  while (i < isize) {
    if (k >= OR_KEYMAX) __vf_model_bound();
    if (i + 1 < tlen && in[i] == '@' && (unsigned)(in[i + 1] - '0') < tok_n) { key[k++] = TOK_BASE + tok_val((unsigned)(in[i + 1] - '0')); i += 2; }
    else { key[k++] = (long)in[i]; i += 1; }
  }
  for (unsigned e = 0; e < OR_MAX; ++e) {           // literal bound
    if (e >= or_n) break;
    // no early exit on a length mismatch: the compiler would otherwise rewrite the loop bound k (concrete) into or_klen[e] (symbolic)
    bool same = (or_kind[e] == kind) & (or_klen[e] == k) & (or_olen[e] == osize);
    for (unsigned j = 0; j < k; ++j) same &= (or_key[e * OR_KEYMAX + j] == key[j]);
    if (same) { for (size_t j = 0; j < osize; ++j) out[j] = or_out[e * OR_OUTMAX + j]; return; }
  }
  vf_assume(or_n < OR_MAX);
  unsigned char o[OR_OUTMAX];
  for (size_t j = 0; j < osize; ++j) { o[j] = vf_nondet_u8(); out[j] = o[j]; }
  for (unsigned e = 0; e < OR_MAX; ++e) {           // store with literal indices only (no symbolic array index)
    if (e != or_n) continue;
    or_kind[e] = kind; or_klen[e] = k; or_olen[e] = (unsigned)osize;
    for (unsigned j = 0; j < k; ++j) or_key[e * OR_KEYMAX + j] = key[j];
    for (size_t j = 0; j < osize; ++j) or_out[e * OR_OUTMAX + j] = o[j];
    break;
  }
  or_n = or_n + 1;
  if (kind == 1) ++or_fresh_h; else ++or_fresh_g;
}
// tmcg_h is called by sign/verify only (data || pad): the data part is text, the trailing TMCG_PRAB_K0 bytes are raw
void vfstub10_h(unsigned char *output, const unsigned char *input, const size_t size, int algo) {
  (void)algo; vf_assume(++or_calls_h <= 2 * H_MAXDRAWS10 + 6);
  oracle(1, output, H_MD, input, size, TMCG_PRAB_K0, true);
}
// tmcg_g: digests / pads (raw, length H_MD or the SAEP pad) and the NIZK challenge text (longer than H_MD, only with H_G_TEXT)
void vfstub10_g(unsigned char *output, const size_t osize, const unsigned char *input, const size_t isize) {
#ifdef H_G_TEXT
  oracle(2, output, osize, input, isize, 0, isize > H_MD);
#else
  oracle(2, output, osize, input, isize, 0, false);
#endif
}
// byte loops instead of CBMC's array-level memcpy/memset/memcmp (those defeat constant propagation of the concrete text/padding bytes)
extern "C" void *vfstub10_memcpy(void *d, const void *s, size_t n) { unsigned char *dd = (unsigned char*)d; const unsigned char *ss = (const unsigned char*)s; for (size_t i = 0; i < n; ++i) dd[i] = ss[i]; return d; }
extern "C" void *vfstub10_memset(void *d, int c, size_t n) { unsigned char *dd = (unsigned char*)d; for (size_t i = 0; i < n; ++i) dd[i] = (unsigned char)c; return d; }
extern "C" int vfstub10_memcmp(const void *a, const void *b, size_t n) { const unsigned char *x = (const unsigned char*)a, *y = (const unsigned char*)b; for (size_t i = 0; i < n; ++i) if (x[i] != y[i]) return x[i] < y[i] ? -1 : 1; return 0; }
// choice among the four roots
static unsigned long rm_last = 0;
#ifdef H_ROOT      /* slice: which of the four roots sign() picks (all four are enumerated) */
extern "C" unsigned long vfstub10_random_mod(unsigned long m) { vf_assume(m > H_ROOT); rm_last = H_ROOT; return rm_last; }
#else
extern "C" unsigned long vfstub10_random_mod(unsigned long m) { vf_assume(m >= 1); rm_last = vf_nondet_below(m); return rm_last; }
#endif

// ---------------------------------------------------------------- transparent memoisation of mpz_mul / mpz_mod
// SAT back ends cannot prove that two separately bit-blasted copies of "r*r mod m" on the same r agree (measured: > 300 s for the
// bare miter at 25 bits). mpz_mul and mpz_mod are therefore routed through a memo table: a call whose operands equal those of
// an earlier call returns the earlier result, otherwise the result is computed by the model (mpz_addmul / mpz_fdiv_r, which
// are the same model arithmetic). This does not change the function computed (memoisation of a pure function).
#define SQM_MAX 24
static __mpz_struct sqm_a[SQM_MAX], sqm_b[SQM_MAX], sqm_r[SQM_MAX]; static unsigned sqm_op[SQM_MAX]; static unsigned sqm_n = 0; static bool sqm_on = false;
static void sqm_apply(unsigned op, mpz_ptr r, mpz_srcptr a, mpz_srcptr b) {
  __mpz_struct A = *a, B = *b;                      // r may alias an operand
  int sg = 1;
  if (op == 1) { sg = mpz_sgn(&A) * mpz_sgn(&B); mpz_abs(&A, &A); mpz_abs(&B, &B); }     // a*b = sgn(a)sgn(b) |a||b|: the table holds products of magnitudes
  else mpz_abs(&B, &B);                                                                   // mpz_mod ignores the sign of the divisor
  bool hit = false;
  if (sqm_on) for (unsigned e = 0; e < SQM_MAX; ++e) {
    if (e >= sqm_n) break;
    if (!hit && sqm_op[e] == op && mpz_cmp(&sqm_a[e], &A) == 0 && mpz_cmp(&sqm_b[e], &B) == 0) { mpz_set(r, &sqm_r[e]); hit = true; }
  }
  if (!hit) {
    if (op == 1) { __mpz_struct z; mpz_init(&z); mpz_addmul(&z, &A, &B); mpz_set(r, &z); }
    else mpz_fdiv_r(r, &A, &B);
  }
  if (sqm_on && sqm_n < SQM_MAX) { unsigned e = sqm_n++; sqm_op[e] = op; sqm_a[e] = A; sqm_b[e] = B; sqm_r[e] = *r; }
  if (op == 1 && sg < 0) mpz_neg(r, r);
}
extern "C" void vfstub10_mul(mpz_ptr r, mpz_srcptr a, mpz_srcptr b) { sqm_apply(1, r, a, b); }
extern "C" void vfstub10_mod(mpz_ptr r, mpz_srcptr a, mpz_srcptr d) { sqm_apply(2, r, a, d); }

// ---------------------------------------------------------------- contract stubs for the square-root machinery (quick tier)
// Contract (checked on the REAL functions for the same key by h_sqrt_contract):
//   tmcg_mpz_qrmn_p(a,p,q) != 0  ==>  a is a unit modulo p and q, and tmcg_mpz_sqrtmn_fast_all(r1..r4, a, ...) returns 0 <= r1,r3 < n, r2 = n - r1, r4 = n - r3, r_i^2 == a (mod n)
static unsigned qr_calls = 0;
extern "C" int vfstub10_qrmn_p(mpz_srcptr a, mpz_srcptr p, mpz_srcptr q) {
  vf_assume(++qr_calls <= H_MAXDRAWS10 + 2);
  int b = (int)(vf_nondet_u8() & 1);
  if (b) vf_assume(mpz_fdiv_ui(a, mpz_get_ui(p)) != 0 && mpz_fdiv_ui(a, mpz_get_ui(q)) != 0);     // a residue is a unit (Jacobi symbols +1)
  return b;
}
static void contract_root(mpz_ptr r, mpz_srcptr a, mpz_srcptr n) {
  unsigned long nn = mpz_get_ui(n);
  mpz_set_ui(r, vf_nondet_below(nn));
  Z t, am; mpz_mul(t, r, r); mpz_mod(t, t, n); mpz_mod(am, a, n);
  vf_assume(mpz_cmp(t, am) == 0);
}
extern "C" void vfstub10_sqrt_all(mpz_ptr r1, mpz_ptr r2, mpz_ptr r3, mpz_ptr r4, mpz_srcptr a, mpz_srcptr p, mpz_srcptr q, mpz_srcptr n,
                                  mpz_srcptr up, mpz_srcptr vq, mpz_srcptr pa1d4, mpz_srcptr qa1d4) {
  (void)p; (void)q; (void)up; (void)vq; (void)pa1d4; (void)qa1d4;
  Z t, am; mpz_mod(am, a, n);
  contract_root(r1, a, n); mpz_sub(r2, n, r1); mpz_mul(t, r2, r2); mpz_mod(t, t, n); vf_assume(mpz_cmp(t, am) == 0);
  contract_root(r3, a, n); mpz_sub(r4, n, r3); mpz_mul(t, r4, r4); mpz_mod(t, t, n); vf_assume(mpz_cmp(t, am) == 0);
}

// ---------------------------------------------------------------- key assembly (what generate() would leave behind, minus the prime search)
#ifndef H_SELFSIG
#define H_SELFSIG "sig|ID8^abcdefgh|12345678|"      /* any text whose value field has >= TMCG_KEYID_SIZE characters: key id = "ID8^12345678" */
#endif
static void __attribute__((noinline)) mkkey(TMCG_SecretKey &sk, unsigned long p, unsigned long q, unsigned long y) {
  sk.name = "A"; sk.email = "a@b"; sk.type = "TMCG/RABIN_24_NIZK"; sk.nizk = ""; sk.sig = H_SELFSIG;
  mpz_set_ui(sk.p, p); mpz_set_ui(sk.q, q); mpz_mul(sk.m, sk.p, sk.q); mpz_set_ui(sk.y, y);
  bool ok = sk.precompute();                        // real code: y^-1, m^-1 mod phi, CRT coefficients, (p+1)/4, (q+1)/4
  vf_assert(ok, "precompute succeeds for the toy Blum key");
  sqm_on = true;
}
// value field of a "sig|keyid|@k|" / "enc|keyid|@k|" text
static long sig_value(const std::string &s) {
  size_t a = s.find('|'); size_t b = s.find('|', a + 1); size_t c = s.find('|', b + 1);
  std::string t = s.substr(b + 1, c - b - 1);
  Z v; if (vfstub10_set_str(v, t.c_str(), TMCG_MPZ_IO_BASE) < 0) return -1;
  return v.get();
}

// ================================================================= 0. contract of the square-root machinery on the real code
#ifndef H_ALO
#define H_ALO 0
#define H_AHI (1L << 24)
#endif
H_ENTRY(h_sqrt_contract) {
  TMCG_SecretKey sk; mkkey(sk, H_P, H_Q, H_Y);
  Z a, r1, r2, r3, r4, t;
  vfh_mpz(a, H_ALO, H_AHI);
  int qr = tmcg_mpz_qrmn_p(a, sk.p, sk.q);
  if (qr) {
    vf_assert(mpz_fdiv_ui(a, H_P) != 0 && mpz_fdiv_ui(a, H_Q) != 0, "a residue is a unit modulo p and q");
    H_TRY(tmcg_mpz_sqrtmn_fast_all(r1, r2, r3, r4, a, sk.p, sk.q, sk.m, sk.gcdext_up, sk.gcdext_vq, sk.pa1d4, sk.qa1d4));
    vf_assert(vfh_exc == 0, "sqrtmn_fast_all does not throw");
    mpz_mul(t, r1, r1); mpz_mod(t, t, sk.m); vf_assert(mpz_cmp(t, a) == 0, "root1^2 == a (mod m)");
    mpz_mul(t, r3, r3); mpz_mod(t, t, sk.m); vf_assert(mpz_cmp(t, a) == 0, "root3^2 == a (mod m)");
    mpz_mul(t, r2, r2); mpz_mod(t, t, sk.m); vf_assert(mpz_cmp(t, a) == 0, "root2^2 == a (mod m)");
    mpz_mul(t, r4, r4); mpz_mod(t, t, sk.m); vf_assert(mpz_cmp(t, a) == 0, "root4^2 == a (mod m)");
    vf_assert(mpz_sgn(r1) >= 0 && mpz_cmp(r1, sk.m) < 0 && mpz_sgn(r3) >= 0 && mpz_cmp(r3, sk.m) < 0, "root1, root3 in [0, m)");
    mpz_add(t, r1, r2); vf_assert(mpz_cmp(t, sk.m) == 0, "root2 == m - root1");
    mpz_add(t, r3, r4); vf_assert(mpz_cmp(t, sk.m) == 0, "root4 == m - root3");
    vf_assert(mpz_cmp(r1, r3) != 0 && mpz_cmp(r1, r4) != 0, "the two root pairs are different");
  }
  H_END();
}

// ================================================================= 1. sign -> verify
#ifndef H_DATA
#define H_DATA "msg"
#endif
H_ENTRY(h_sign_verify) {
  TMCG_SecretKey sk; mkkey(sk, H_P, H_Q, H_Y);
  TMCG_PublicKey pk(sk);
  std::string data = H_DATA, sig;
  H_TRY(sig = sk.sign(data));
  vf_assert(vfh_exc == 0, "sign returns");
  bool ok = false;
  H_TRY(ok = pk.verify(data, sig));
  vf_assert(vfh_exc == 0, "verify returns");
  vf_assert(ok, "a signature made with the secret key verifies under the matching public key (every oracle output, pad and root choice)");
  bool ok2 = false;
  H_TRY(ok2 = sk.verify(data, sig));
  vf_assert(vfh_exc == 0 && ok2, "TMCG_SecretKey::verify accepts it as well");
  H_END();
}

// ================================================================= 2. tampering with a valid signature
// "Honest signature" = ANY s0 in [0,m) with s0^2 != 0 (mod m) that verifies for `data` (every output of sign() is one: C10_sign_verify;
// sign() can output nothing else because verification recomputes the padded value from s0^2). No square root is computed here.
// Exact characterisation asserted (X(s) = low 8*mnsize bits of s^2 mod m, i.e. what verify() exports and splits into w | r* | gamma):
//   value edit   : accepted <=> X(s1) == X(s0), unless the hash oracle is asked a NEW point and answers exactly the expected w
//                  (the only way to accept a different padded value; probability 2^-8 per attempt at this digest size)
//   data edit    : accepted only through a new oracle point; key id edit: always refused; other key (same key id text):
//                  accepted only if X under the other modulus coincides or through a new oracle point; other key id: refused.
#ifndef H_TK
#define H_TK 0
#endif
#ifndef H_POS
#define H_POS 4
#endif
#ifndef H_P2
#define H_P2 4127
#define H_Q2 4139
#endif
static unsigned long lowX(mpz_srcptr s, mpz_srcptr m, bool *zero) {
  Z x; mpz_mul(x, s, s); mpz_mod(x, x, m); *zero = (mpz_sgn(x) == 0);
  size_t mn = mpz_sizeinbase(m, 2UL) / 8;
  return mpz_get_ui(x) & ((1UL << (8 * mn)) - 1);
}
H_ENTRY(h_sig_tamper) {
  TMCG_SecretKey sk; mkkey(sk, H_P, H_Q, H_Y);
  TMCG_PublicKey pk(sk);
  unsigned long mm = mpz_get_ui(pk.m);
  std::string data = H_DATA, kid = pk.keyid();
  Z s0, s1; vfh_mpz(s0, 0, (long)mm);
  bool z0 = false, z1 = false; unsigned long X0 = lowX(s0, pk.m, &z0);
  vf_assume(!z0);
  std::string sig0 = "sig|" + kid + "|" + tok_text(s0.get()) + "|";
  bool ok0 = false; H_TRY(ok0 = pk.verify(data, sig0));
  vf_assume(vfh_exc == 0 && ok0);                               // s0 is a valid signature on data
  unsigned fh0 = or_fresh_h; bool ok1 = false;
#if H_TK == 0
  vfh_mpz(s1, -2, (long)mm + 2);
  unsigned long X1 = lowX(s1, pk.m, &z1);
  vf_assume(!z1);                                               // s1 = 0 (mod m): verify() exports nothing and reads an uninitialised buffer, see notes
  std::string sig1 = "sig|" + kid + "|" + tok_text(s1.get()) + "|";
  H_TRY(ok1 = pk.verify(data, sig1));
  vf_assert(vfh_exc == 0, "verify returns on an arbitrary signature value");
  vf_assert(!ok1 || X1 == X0 || or_fresh_h != fh0, "another value is accepted only if it squares to the same padded value (or the oracle answers a new point with the expected digest)");
  vf_assert(X1 != X0 || ok1, "every value whose square has the same padded value is accepted (s0 itself, -s0, the other roots)");
  { Z n0; mpz_neg(n0, s0); vf_assert(mpz_cmp(s1, n0) != 0 || ok1, "the negated root -s0 is accepted"); }
#elif H_TK == 1
  std::string data1 = data; unsigned char c = vf_nondet_u8(); vf_assume(c != (unsigned char)data[H_POS % (sizeof(H_DATA) - 1)]);
  data1[H_POS % (sizeof(H_DATA) - 1)] = (char)c;
  H_TRY(ok1 = pk.verify(data1, sig0));
  vf_assert(vfh_exc == 0, "verify returns");
  vf_assert(!ok1 || or_fresh_h != fh0, "the same signature on other data is accepted only if the oracle answers the new point with the expected digest");
#else
  // key id edits are CONCRETE (a symbolic character in the parsed text makes every later string length symbolic: out of memory at 6 GB);
  // the signature value stays symbolic. Every position of "ID8^12345678" replaced by another character, '|' and '^' injected,
  // one character dropped / appended, and a key whose self-signature (hence key id) differs.
  static const unsigned poss[] = { 4, 11 };
  for (unsigned pi = 0; pi < 2; ++pi) {
    unsigned pos = poss[pi];
    std::string kid1 = kid; kid1[pos] = (kid[pos] == 'Z') ? 'Y' : 'Z';
    std::string sig1 = "sig|" + kid1 + "|" + tok_text(s0.get()) + "|";
    H_TRY(ok1 = pk.verify(data, sig1));
    vf_assert(vfh_exc == 0 && !ok1, "a signature carrying another key id is refused");
  }
  { std::string sig1 = std::string("sig|ID8^1234567|") + tok_text(s0.get()) + "|";          // announced length 8, 7 characters present
    H_TRY(ok1 = pk.verify(data, sig1));
    vf_assert(vfh_exc == 0 && !ok1, "a signature with a truncated key id is refused"); }
  { std::string sig1 = std::string("sig|ID7^2345678|") + tok_text(s0.get()) + "|";          // a well-formed ABBREVIATED id of the same key
    H_TRY(ok1 = pk.verify(data, sig1));
    vf_assert(vfh_exc == 0 && ok1, "an abbreviated key id (last 7 characters, announced as 7) is accepted: keyid() compares the announced number of trailing characters"); }
  TMCG_PublicKey pk3(sk); pk3.sig = "sig|ID8^abcdefgh|1234567Z|";                   // other self-signature => other key id, same modulus
  bool ok2 = true; H_TRY(ok2 = pk3.verify(data, sig0));
  vf_assert(vfh_exc == 0 && !ok2, "a key with another key id refuses the signature");
#endif
  H_END();
}

#ifdef H_DEBUG10
H_ENTRY(h_dbg_c) { TMCG_SecretKey sk; mkkey(sk, H_P, H_Q, H_Y); TMCG_PublicKey pk(sk); std::string data = H_DATA; std::string sig = sk.sign(data); bool ok = pk.verify(data, sig); vf_assert(ok, "ok"); H_END(); }
H_ENTRY(h_dbg_m) {
  sqm_on = true; Z n, r, t, a, x; mpz_set_ui(n, (unsigned long)H_P * H_Q);
  unsigned char b[3] = { vf_nondet_u8(), vf_nondet_u8(), vf_nondet_u8() }, o[8];
  mpz_import(a, 1, -1, 3, 1, 0, b);
  mpz_set_ui(r, vf_nondet_below(mpz_get_ui(n)));
  mpz_mul(t, r, r); mpz_mod(t, t, n); vf_assume(mpz_cmp(t, a) == 0); vf_assume(mpz_sgn(a) != 0);
  mpz_set(x, r); mpz_mul(x, x, x); mpz_mod(x, x, n);
  size_t cnt = 1; mpz_export(o, &cnt, -1, 3, 1, 0, x);
  vf_assert(o[0] == b[0] && o[1] == b[1] && o[2] == b[2], "bytes");
  H_END(); }
H_ENTRY(h_dbg_a) { TMCG_SecretKey sk; mkkey(sk, H_P, H_Q, H_Y); TMCG_PublicKey pk(sk); std::string k = pk.keyid(8); vf_assert(k == "ID8^12345678", "keyid"); H_END(); }
H_ENTRY(h_dbg_b) { TMCG_SecretKey sk; mkkey(sk, H_P, H_Q, H_Y); std::string data = H_DATA, sig; H_TRY(sig = sk.sign(data)); vf_assert(sig.length() == 20, "len"); vf_assert(sig == "sig|ID8^12345678|@0|", "content"); H_END(); }
#endif
