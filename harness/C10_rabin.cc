// C10: Rabin key operations (TMCG_SecretKey / TMCG_PublicKey) on hand-assembled toy Blum keys.
//
// What is modelled around the real code (all listed in index.d/C10.py `assumptions`, details in notes/C10.md):
//  * digests: gcry_md_get_algo_dlen() == H_MD (1 byte); tmcg_h / tmcg_g are ONE memoised nondeterministic function each
//    from byte strings to byte strings (random oracle restricted to the calls made; flat tables, DESIGN A.8)
//  * numbers inside texts ("sig|keyid|VALUE|", key text, NIZK text) travel as out-of-band tokens "@k": operator<<(mpz)
//    writes '@' and a table index, mpz_set_str() reads the table. The text stays CONCRETE while the value is symbolic
//    (the base-62 codec itself is C11). The oracle keys substitute the token by its value, so that hashing a text
//    is a function of the numbers printed in it.
//  * tmcg_mpz_srandom_mod(4) (choice of the root) and gcry_randomize (pad) are logged symbolic sources.
// The key is concrete per slice: H_P, H_Q (primes = 3 mod 4), H_Y (non-residue with Jacobi symbol +1).
#include "vfh_gmp.hh"
#include "TMCG_SecretKey.hh"
#include "TMCG_PublicKey.hh"
#include "mpz_sqrtm.hh"
#include "mpz_shash.hh"
#include <string>
#include <sstream>
#include <iostream>

#ifndef H_P
#define H_P 4099
#define H_Q 4111
#define H_Y 3
#endif
#ifndef H_MD
#define H_MD 1                 /* digest length in bytes of the modelled TMCG_GCRY_MD_ALGO */
#endif
#ifndef H_MAXDRAWS10
#define H_MAXDRAWS10 2         /* sign(): at most this many pad draws ("try again until the padded value is a residue") */
#endif

struct Z { mpz_t v; Z() { mpz_init(v); } Z(long x) { mpz_init_set_si(v, x); } ~Z() { mpz_clear(v); } operator mpz_ptr() { return v; } operator mpz_srcptr() const { return v; }
           long get() const { return mpz_sgn(v) * (long)mpz_get_ui(v); } private: Z(const Z&); Z& operator=(const Z&); };
static inline long vfh_val(mpz_srcptr a) { return mpz_sgn(a) * (long)mpz_get_ui(a); }

extern "C" unsigned int gcry_md_get_algo_dlen(int algo) { (void)algo; return H_MD; }

// ---------------------------------------------------------------- number tokens
#define TOK_MAX 40
static long tok_val[TOK_MAX]; static unsigned tok_n = 0;
extern "C" void __vf_model_bound(void);
static inline unsigned tok_new(long v) { if (tok_n >= TOK_MAX) __vf_model_bound(); unsigned k = tok_n++; tok_val[k] = v; return k; }
std::ostream& vfstub10_mpz_out(std::ostream& out, mpz_srcptr v) {
  unsigned k = tok_new(vfh_val(v));
  out.put('@'); out.put((char)('0' + k));
  return out;
}
static inline std::string tok_text(long v) { unsigned k = tok_new(v); std::string s; s.push_back('@'); s.push_back((char)('0' + k)); return s; }
// mpz_set_str: "@k" -> table value; anything else is parsed as GMP does (digits of the base, optional '-', white space skipped)
extern "C" int vfstub10_set_str(mpz_ptr r, const char *s, int base) {
  if (s[0] == '@') {
    unsigned k = (unsigned)((unsigned char)s[1] - '0');
    if (s[1] == 0 || s[2] != 0 || k >= tok_n) return -1;
    mpz_set_si(r, tok_val[k]); return 0;
  }
  size_t i = 0; bool neg = false; unsigned long v = 0; size_t nd = 0;
  if (base < 2 || base > 62) return -1;
  while (s[i] == ' ' || s[i] == '\t' || s[i] == '\n') ++i;
  if (s[i] == '-') { neg = true; ++i; }
  for (; s[i] != 0; ++i) {
    unsigned char c = (unsigned char)s[i]; int d;
    if (c == ' ' || c == '\t' || c == '\n') continue;
    if (c >= '0' && c <= '9') d = c - '0';
    else if (base <= 36) { if (c >= 'a' && c <= 'z') d = c - 'a' + 10; else if (c >= 'A' && c <= 'Z') d = c - 'A' + 10; else return -1; }
    else { if (c >= 'A' && c <= 'Z') d = c - 'A' + 10; else if (c >= 'a' && c <= 'z') d = c - 'a' + 36; else return -1; }
    if (d >= base) return -1;
    if (v > (1UL << 40)) __vf_model_bound();
    v = v * (unsigned long)base + (unsigned long)d; ++nd;
  }
  if (nd == 0) return -1;
  mpz_set_ui(r, v); if (neg) mpz_neg(r, r);
  return 0;
}

// ---------------------------------------------------------------- hash oracles
// one table for both functions; key = (kind, output length, canonical input), canonical input = bytes with "@k" replaced by
// (TOK_BASE + value) where the input is a text (see or_text()).
#ifndef OR_MAX
#define OR_MAX 8
#endif
#ifndef OR_KEYMAX
#define OR_KEYMAX 64
#endif
#define OR_OUTMAX 4
#define TOK_BASE (1L << 40)
static unsigned or_n = 0; static unsigned or_kind[OR_MAX], or_klen[OR_MAX], or_olen[OR_MAX];
static long or_key[OR_MAX * OR_KEYMAX]; static unsigned char or_out[OR_MAX * OR_OUTMAX];
static unsigned or_fresh_h = 0, or_fresh_g = 0, or_calls_h = 0;      // number of NEW points queried (per function), H calls
static void oracle(unsigned kind, unsigned char *out, size_t osize, const unsigned char *in, size_t isize, size_t rawtail, bool text) {
  long key[OR_KEYMAX]; unsigned k = 0;
  if (osize > OR_OUTMAX) __vf_model_bound();
  size_t i = 0, tlen = (text && isize >= rawtail) ? isize - rawtail : 0;     // [0, tlen) is text, the rest raw bytes
  while (i < isize) {
    if (k >= OR_KEYMAX) __vf_model_bound();
    if (i + 1 < tlen && in[i] == '@') { key[k++] = TOK_BASE + tok_val[(unsigned)(in[i + 1] - '0')]; i += 2; }
    else { key[k++] = (long)in[i]; i += 1; }
  }
  for (unsigned e = 0; e < OR_MAX; ++e) {           // literal bound
    if (e >= or_n) break;
    if (or_kind[e] != kind || or_klen[e] != k || or_olen[e] != osize) continue;
    bool same = true;
    for (unsigned j = 0; j < k; ++j) if (or_key[e * OR_KEYMAX + j] != key[j]) same = false;
    if (same) { for (size_t j = 0; j < osize; ++j) out[j] = or_out[e * OR_OUTMAX + j]; return; }
  }
  vf_assume(or_n < OR_MAX);
  unsigned char o[OR_OUTMAX];
  for (size_t j = 0; j < osize; ++j) { o[j] = vf_nondet_u8(); out[j] = o[j]; }
  for (unsigned e = 0; e < OR_MAX; ++e) {           // store with literal indices only (no symbolic array index)
    if (e != or_n) continue;
    or_kind[e] = kind; or_klen[e] = k; or_olen[e] = (unsigned)osize;
    for (unsigned j = 0; j < k; ++j) or_key[e * OR_KEYMAX + j] = key[j];
    for (size_t j = 0; j < osize; ++j) or_out[e * OR_OUTMAX + j] = o[j];
    break;
  }
  or_n = or_n + 1;
  if (kind == 1) ++or_fresh_h; else ++or_fresh_g;
}
// tmcg_h is called by sign/verify only (data || pad): the data part is text, the trailing TMCG_PRAB_K0 bytes are raw
void vfstub10_h(unsigned char *output, const unsigned char *input, const size_t size, int algo) {
  (void)algo; vf_assume(++or_calls_h <= 2 * H_MAXDRAWS10 + 6);
  oracle(1, output, H_MD, input, size, TMCG_PRAB_K0, true);
}
// tmcg_g: digests / pads (raw, length H_MD or the SAEP pad) and the NIZK challenge text (longer than H_MD, only with H_G_TEXT)
void vfstub10_g(unsigned char *output, const size_t osize, const unsigned char *input, const size_t isize) {
#ifdef H_G_TEXT
  oracle(2, output, osize, input, isize, 0, isize > H_MD);
#else
  oracle(2, output, osize, input, isize, 0, false);
#endif
}
// byte loops instead of CBMC's array-level memcpy/memset/memcmp (those defeat constant propagation of the concrete text/padding bytes)
extern "C" void *vfstub10_memcpy(void *d, const void *s, size_t n) { unsigned char *dd = (unsigned char*)d; const unsigned char *ss = (const unsigned char*)s; for (size_t i = 0; i < n; ++i) dd[i] = ss[i]; return d; }
extern "C" void *vfstub10_memset(void *d, int c, size_t n) { unsigned char *dd = (unsigned char*)d; for (size_t i = 0; i < n; ++i) dd[i] = (unsigned char)c; return d; }
extern "C" int vfstub10_memcmp(const void *a, const void *b, size_t n) { const unsigned char *x = (const unsigned char*)a, *y = (const unsigned char*)b; for (size_t i = 0; i < n; ++i) if (x[i] != y[i]) return x[i] < y[i] ? -1 : 1; return 0; }
// choice among the four roots
static unsigned long rm_last = 0;
extern "C" unsigned long vfstub10_random_mod(unsigned long m) { vf_assume(m >= 1); rm_last = vf_nondet_below(m); return rm_last; }

// ---------------------------------------------------------------- contract stubs for the square-root machinery (quick tier)
// Contract (checked on the REAL functions for the same key by h_sqrt_contract):
//   tmcg_mpz_qrmn_p(a,p,q) != 0  ==>  tmcg_mpz_sqrtmn_fast_all(r1..r4, a, ...) returns 0 <= r1,r3 < n, r2 = n - r1, r4 = n - r3, r_i^2 == a (mod n)
static unsigned qr_calls = 0;
extern "C" int vfstub10_qrmn_p(mpz_srcptr a, mpz_srcptr p, mpz_srcptr q) { (void)a; (void)p; (void)q; vf_assume(++qr_calls <= H_MAXDRAWS10 + 2); return (int)(vf_nondet_u8() & 1); }
static void contract_root(mpz_ptr r, mpz_srcptr a, mpz_srcptr n) {
  unsigned long nn = mpz_get_ui(n);
  mpz_set_ui(r, vf_nondet_below(nn));
  Z t, am; mpz_mul(t, r, r); mpz_mod(t, t, n); mpz_mod(am, a, n);
  vf_assume(mpz_cmp(t, am) == 0);
}
extern "C" void vfstub10_sqrt_all(mpz_ptr r1, mpz_ptr r2, mpz_ptr r3, mpz_ptr r4, mpz_srcptr a, mpz_srcptr p, mpz_srcptr q, mpz_srcptr n,
                                  mpz_srcptr up, mpz_srcptr vq, mpz_srcptr pa1d4, mpz_srcptr qa1d4) {
  (void)p; (void)q; (void)up; (void)vq; (void)pa1d4; (void)qa1d4;
  contract_root(r1, a, n); mpz_sub(r2, n, r1);
  contract_root(r3, a, n); mpz_sub(r4, n, r3);
}

// ---------------------------------------------------------------- key assembly (what generate() would leave behind, minus the prime search)
#ifndef H_SELFSIG
#define H_SELFSIG "sig|ID8^abcdefgh|12345678|"      /* any text whose value field has >= TMCG_KEYID_SIZE characters: key id = "ID8^12345678" */
#endif
static void mkkey(TMCG_SecretKey &sk, unsigned long p, unsigned long q, unsigned long y) {
  sk.name = "A"; sk.email = "a@b"; sk.type = "TMCG/RABIN_24_NIZK"; sk.nizk = ""; sk.sig = H_SELFSIG;
  mpz_set_ui(sk.p, p); mpz_set_ui(sk.q, q); mpz_mul(sk.m, sk.p, sk.q); mpz_set_ui(sk.y, y);
  bool ok = sk.precompute();                        // real code: y^-1, m^-1 mod phi, CRT coefficients, (p+1)/4, (q+1)/4
  vf_assert(ok, "precompute succeeds for the toy Blum key");
}
// value field of a "sig|keyid|@k|" / "enc|keyid|@k|" text
static long sig_value(const std::string &s) {
  size_t a = s.find('|'); size_t b = s.find('|', a + 1); size_t c = s.find('|', b + 1);
  std::string t = s.substr(b + 1, c - b - 1);
  Z v; if (vfstub10_set_str(v, t.c_str(), TMCG_MPZ_IO_BASE) < 0) return -1;
  return v.get();
}

// ================================================================= 0. contract of the square-root machinery on the real code
#ifndef H_ALO
#define H_ALO 0
#define H_AHI (1L << 24)
#endif
H_ENTRY(h_sqrt_contract) {
  TMCG_SecretKey sk; mkkey(sk, H_P, H_Q, H_Y);
  Z a, r1, r2, r3, r4, t;
  vfh_mpz(a, H_ALO, H_AHI);
  int qr = tmcg_mpz_qrmn_p(a, sk.p, sk.q);
  if (qr) {
    H_TRY(tmcg_mpz_sqrtmn_fast_all(r1, r2, r3, r4, a, sk.p, sk.q, sk.m, sk.gcdext_up, sk.gcdext_vq, sk.pa1d4, sk.qa1d4));
    vf_assert(vfh_exc == 0, "sqrtmn_fast_all does not throw");
    mpz_mul(t, r1, r1); mpz_mod(t, t, sk.m); vf_assert(mpz_cmp(t, a) == 0, "root1^2 == a (mod m)");
    mpz_mul(t, r3, r3); mpz_mod(t, t, sk.m); vf_assert(mpz_cmp(t, a) == 0, "root3^2 == a (mod m)");
    vf_assert(mpz_sgn(r1) >= 0 && mpz_cmp(r1, sk.m) < 0 && mpz_sgn(r3) >= 0 && mpz_cmp(r3, sk.m) < 0, "root1, root3 in [0, m)");
    mpz_add(t, r1, r2); vf_assert(mpz_cmp(t, sk.m) == 0, "root2 == m - root1");
    mpz_add(t, r3, r4); vf_assert(mpz_cmp(t, sk.m) == 0, "root4 == m - root3");
    vf_assert(mpz_cmp(r1, r3) != 0 && mpz_cmp(r1, r4) != 0, "the two root pairs are different");
  }
  H_END();
}

// ================================================================= 1. sign -> verify
#ifndef H_DATA
#define H_DATA "msg"
#endif
H_ENTRY(h_sign_verify) {
  TMCG_SecretKey sk; mkkey(sk, H_P, H_Q, H_Y);
  TMCG_PublicKey pk(sk);
  std::string data = H_DATA, sig;
  H_TRY(sig = sk.sign(data));
  vf_assert(vfh_exc == 0, "sign returns");
  bool ok = false;
  H_TRY(ok = pk.verify(data, sig));
  vf_assert(vfh_exc == 0, "verify returns");
  vf_assert(ok, "a signature made with the secret key verifies under the matching public key (every oracle output, pad and root choice)");
  bool ok2 = false;
  H_TRY(ok2 = sk.verify(data, sig));
  vf_assert(vfh_exc == 0 && ok2, "TMCG_SecretKey::verify accepts it as well");
  H_END();
}
