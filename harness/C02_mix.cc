// C02 on the stack level (discrete-log encoding): SchindelhauerTMCG::TMCG_MixStack<VTMF_Card>, TMCG_CreateStackSecret,
// TMCG_GlueStackSecret.
//  h_mix_vtmf     arbitrary input stack (every card an arbitrary pair of group elements), permutation enumerated by slices,
//                 arbitrary masking exponents, arbitrary key: output has the input's size and output card i is the re-encryption of
//                 input card pi[i] under the common key with the exponent stored for pi[i]; hence it opens (c_2 / c_1^x) to the same
//                 message. Oracle in plain long arithmetic.
//  h_mix_created  the stack secret comes from the real TMCG_CreateStackSecret (permutation and rotation generators with symbolic
//                 draws, MaskingValue): index component is a bijection, size fits, mixing with it preserves the multiset of
//                 opened messages; for cyclic = true the indices are the rotation by the returned offset.
//  h_glue_vtmf    TMCG_GlueStackSecret: MixStack(s, Glue(sigma, pi)) == MixStack(MixStack(s, sigma), pi), card by card.
#include "vfh_shuffle.hh"
#include "SchindelhauerTMCG.hh"
#include "BarnettSmartVTMF_dlog.hh"
#include "mpz_spowm.hh"
#ifndef H_P
#define H_P 11
#define H_Q 5
#define H_G 3
#define H_K 2
#endif
#ifndef H_N
#define H_N 2
#endif
#ifndef H_PERM
#define H_PERM 0
#endif
#ifndef H_PERM2
#define H_PERM2 0
#endif
static BarnettSmartVTMF_dlog *mkvtmf(long x) {
  vfs_tables(H_P, H_Q, H_G);
  BarnettSmartVTMF_dlog *v = new BarnettSmartVTMF_dlog(2, 2, false, false);
  mpz_set_ui(v->p, H_P); mpz_set_ui(v->q, H_Q); mpz_set_ui(v->g, H_G); mpz_set_ui(v->k, H_K);
  tmcg_mpz_fpowm_precompute(v->fpowm_table_g, v->g, v->p, mpz_sizeinbase(v->q, 2L));
  mpz_set_si(v->x_i, x); mpz_set_si(v->h, vfs_gpow[x]); mpz_set(v->h_i, v->h);      // common key h = g^x, single player
  v->KeyGenerationProtocol_Finalize();
  return v;
}
// the H_PERM-th permutation of 0..n-1 in lexicographic order (concrete per slice)
static void nth_perm(unsigned n, unsigned idx, unsigned *out) {
  unsigned avail[8]; for (unsigned i = 0; i < n; ++i) avail[i] = i;
  unsigned f = 1; for (unsigned i = 2; i < n; ++i) f *= i;          // (n-1)!
  for (unsigned i = 0; i < n; ++i) {
    unsigned sel = idx / f; idx %= f; if (n - 1 - i > 0) f /= (n - 1 - i);
    out[i] = avail[sel]; for (unsigned j = sel; j + 1 < n - i; ++j) avail[j] = avail[j + 1];
  }
}
// card i = (g^a_i, g^b_i) with arbitrary exponents: every pair of group elements; e1/e2 receive the exponents
static void sym_stack(TMCG_Stack<VTMF_Card> &s, long *e1, long *e2) {
  for (unsigned i = 0; i < H_N; ++i) {
    VTMF_Card c; e1[i] = vfh_range(0, H_Q); e2[i] = vfh_range(0, H_Q);
    mpz_set_si(c.c_1, vfs_gpow[e1[i]]); mpz_set_si(c.c_2, vfs_gpow[e2[i]]); s.push(c);
  }
}
// exponent of the message a card (g^a, g^b) opens to under the key x: m = c_2 / c_1^x = g^(b - a x)
static long open_exp(long a, long b, long x) { return vfs_subq(b, vfs_mulq(a, x), H_Q); }
// the same for a card produced by the library (components must be subgroup elements; -1 otherwise)
static long open_card(const VTMF_Card &c, long x) {
  long v1 = vfh_val(c.c_1), v2 = vfh_val(c.c_2);
  if (v1 < 0 || v1 >= H_P || v2 < 0 || v2 >= H_P) return -1;
  long a = vfs_dlog_t[v1], b = vfs_dlog_t[v2];
  if (a < 0 || b < 0) return -1;
  return open_exp(a, b, x);
}

H_ENTRY(h_mix_vtmf) {
  long x = vfh_range(0, H_Q);
  BarnettSmartVTMF_dlog *vtmf = mkvtmf(x);
  SchindelhauerTMCG *tmcg = new SchindelhauerTMCG(2, 2, 1);
  TMCG_Stack<VTMF_Card> s, s2; long c1[H_N], c2[H_N];
  sym_stack(s, c1, c2);
  unsigned pi[H_N]; nth_perm(H_N, H_PERM, pi);
  TMCG_StackSecret<VTMF_CardSecret> ss; long r[H_N];
  for (unsigned i = 0; i < H_N; ++i) { VTMF_CardSecret cs; r[i] = vfh_range(0, H_Q); mpz_set_si(cs.r, r[i]); ss.push(pi[i], cs); }
#ifdef H_TAP
  bool tap = H_TAP;                    // slice: timing-attack protection (table power with dummy arithmetic) on / off
#else
  bool tap = vf_nondet_u8() & 1;
#endif
  tmcg->TMCG_MixStack(s, s2, ss, vtmf, tap);
  vf_assert(s2.size() == H_N, "mixed stack has the size of the input stack");
#ifndef H_ABL
  for (unsigned i = 0; i < H_N; ++i) {
    unsigned j = pi[i];
    vf_assert(vfh_val(s2[i].c_1) == vfs_gpow[vfs_addq(c1[j], r[j], H_Q)], "c_1 of output card i == c_1 of input card pi[i] times g^r");
    vf_assert(vfh_val(s2[i].c_2) == vfs_gpow[vfs_addq(c2[j], vfs_mulq(x, r[j]), H_Q)], "c_2 of output card i == c_2 of input card pi[i] times h^r");
    vf_assert(open_card(s2[i], x) == open_exp(c1[j], c2[j], x), "output card i opens to the message of input card pi[i]");
  }
#elif H_ABL == 2
  for (unsigned i = 0; i < H_N; ++i) { unsigned j = pi[i]; vf_assert(vfh_val(s2[i].c_1) == vfs_gpow[vfs_addq(c1[j], r[j], H_Q)], "c_1 only"); }
#endif
  H_END();
}

// (the bounded sampler of the permutation / rotation generators is vfstub_random_mod in vfh_shuffle.hh)
#ifndef H_CYCLIC
#define H_CYCLIC 0
#endif
H_ENTRY(h_mix_created) {
  long x = vfh_range(0, H_Q);
  BarnettSmartVTMF_dlog *vtmf = mkvtmf(x);
  SchindelhauerTMCG *tmcg = new SchindelhauerTMCG(2, 2, 1);
  TMCG_Stack<VTMF_Card> s, s2; long c1[H_N], c2[H_N];
  sym_stack(s, c1, c2);
  TMCG_StackSecret<VTMF_CardSecret> ss;
  size_t off = tmcg->TMCG_CreateStackSecret(ss, H_CYCLIC != 0, H_N, vtmf);
  vf_assert(ss.size() == H_N, "created stack secret has the requested size");
  for (unsigned v = 0; v < H_N; ++v) { unsigned cnt = 0; for (unsigned i = 0; i < H_N; ++i) if (ss[i].first == v) ++cnt; vf_assert(cnt == 1, "index component of a created stack secret is a bijection"); }
  for (unsigned i = 0; i < H_N; ++i) { long rr = vfh_val(ss[i].second.r); vf_assert(rr >= 2 && rr < H_Q, "masking exponents lie in [2, q)"); }
#if H_CYCLIC
  vf_assert(off < H_N, "rotation offset below n");
  for (unsigned i = 0; i < H_N; ++i) vf_assert(ss[(i + off) % H_N].first == i, "cyclic secret: input card i goes to position i + offset (mod n)");
#else
  (void)off;
#endif
  tmcg->TMCG_MixStack(s, s2, ss, vtmf, true);
  vf_assert(s2.size() == H_N, "mixed stack has the size of the input stack");
  // multiset of opened messages preserved: every message value occurs equally often before and after
  long mb[H_N], ma[H_N];
  for (unsigned i = 0; i < H_N; ++i) { mb[i] = open_exp(c1[i], c2[i], x); ma[i] = open_card(s2[i], x); }
  for (long m = -1; m < H_Q; ++m) {
    unsigned before = 0, after = 0;
    for (unsigned i = 0; i < H_N; ++i) { if (mb[i] == m) ++before; if (ma[i] == m) ++after; }
    vf_assert(before == after, "multiset of opened messages is preserved by mixing with a created stack secret");
  }
  H_END();
}

H_ENTRY(h_glue_vtmf) {
  long x = vfh_range(0, H_Q);
  BarnettSmartVTMF_dlog *vtmf = mkvtmf(x);
  SchindelhauerTMCG *tmcg = new SchindelhauerTMCG(2, 2, 1);
  TMCG_Stack<VTMF_Card> s, s2, s3, s4; long c1[H_N], c2[H_N];
  sym_stack(s, c1, c2);
  unsigned pa[H_N], pb[H_N]; nth_perm(H_N, H_PERM, pa); nth_perm(H_N, H_PERM2, pb);
  TMCG_StackSecret<VTMF_CardSecret> sigma, pi;
  for (unsigned i = 0; i < H_N; ++i) { VTMF_CardSecret cs; vfh_mpz(cs.r, 0, H_Q); sigma.push(pa[i], cs); }
  for (unsigned i = 0; i < H_N; ++i) { VTMF_CardSecret cs; vfh_mpz(cs.r, 0, H_Q); pi.push(pb[i], cs); }
  tmcg->TMCG_MixStack(s, s2, sigma, vtmf, false);
  tmcg->TMCG_MixStack(s2, s3, pi, vtmf, false);
  tmcg->TMCG_GlueStackSecret(sigma, pi, vtmf);
  vf_assert(pi.size() == H_N, "glued stack secret keeps the size");
  for (unsigned v = 0; v < H_N; ++v) { unsigned cnt = 0; for (unsigned i = 0; i < H_N; ++i) if (pi[i].first == v) ++cnt; vf_assert(cnt == 1, "index component of a glued stack secret is a bijection"); }
  tmcg->TMCG_MixStack(s, s4, pi, vtmf, false);
  vf_assert(s4.size() == H_N && s3.size() == H_N, "sizes preserved");
  for (unsigned i = 0; i < H_N; ++i)
    vf_assert(mpz_cmp(s3[i].c_1, s4[i].c_1) == 0 && mpz_cmp(s3[i].c_2, s4[i].c_2) == 0, "mixing with the glued secret == mixing with sigma, then with pi");
  H_END();
}
