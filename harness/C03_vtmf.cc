// C03 (completeness) on the discrete-log VTMF: key-share NIZK, equality of discrete logs (CP), masking, re-masking,
// decryption shares. Real prover writes the transcript, real verifier reads it; all coins and digests symbolic.
#include "vfh_proto.hh"
#include "BarnettSmartVTMF_dlog.hh"
#include "mpz_spowm.hh"
#ifndef H_P
#define H_P 23
#define H_Q 11
#define H_G 2
#define H_K 2
#endif
// The toy group is installed directly into the instance (first constructor with initialize_group = false, then the same
// table set-up as the constructors do). Values read through a stream buffer are symbolic to the engine, and a symbolic
// modulus costs orders of magnitude more; the stream constructor itself is covered by C06/C11.
static BarnettSmartVTMF_dlog *mkvtmf() {
  BarnettSmartVTMF_dlog *v = new BarnettSmartVTMF_dlog(2, 2, false, false);
  mpz_set_ui(v->p, H_P); mpz_set_ui(v->q, H_Q); mpz_set_ui(v->g, H_G); mpz_set_ui(v->k, H_K);
  tmcg_mpz_fpowm_precompute(v->fpowm_table_g, v->g, v->p, mpz_sizeinbase(v->q, 2L));
  return v;
}

H_ENTRY(h_key_nizk) {
  BarnettSmartVTMF_dlog *a = mkvtmf(), *b = mkvtmf();
  vf_assert(a->CheckGroup(), "toy group passes CheckGroup");
  a->KeyGenerationProtocol_GenerateKey();
  b->KeyGenerationProtocol_GenerateKey();
  std::stringstream t;
  a->KeyGenerationProtocol_PublishKey(t);
  bool ok = false;
  H_TRY(ok = b->KeyGenerationProtocol_UpdateKey(t));
  vf_assert(vfh_exc == 0 && ok, "honest key-share proof is accepted (KeyGenerationProtocol_PublishKey -> UpdateKey)");
  H_END();
}

// CP_Prove / CP_Verify: log_gg(x) == log_hh(y) == alpha, arbitrary bases in the group
H_ENTRY(h_cp) {
  BarnettSmartVTMF_dlog *a = mkvtmf();
  Z alpha, gg, hh, x, y, e1, e2;
  vfh_mpz(alpha, 0, H_Q); vfh_mpz(e1, 0, H_Q); vfh_mpz(e2, 0, H_Q);
  mpz_powm(gg, a->g, e1, a->p); mpz_powm(hh, a->g, e2, a->p);
  mpz_powm(x, gg, alpha, a->p); mpz_powm(y, hh, alpha, a->p);
  std::stringstream t;
  a->CP_Prove(x, y, gg, hh, alpha, t, false);
  bool ok = false;
  H_TRY(ok = a->CP_Verify(x, y, gg, hh, t, false));
  vf_assert(vfh_exc == 0 && ok, "honest CP proof is accepted (fpowm_usage = false)");
  H_END();
}
// the table-based variant is only defined for gg = g, hh = h (the instance's own tables)
H_ENTRY(h_cp_fpowm) {
  BarnettSmartVTMF_dlog *a = mkvtmf();
  a->KeyGenerationProtocol_GenerateKey();
  a->KeyGenerationProtocol_Finalize();
  Z alpha, x, y;
  vfh_mpz(alpha, 0, H_Q);
  mpz_powm(x, a->g, alpha, a->p); mpz_powm(y, a->h, alpha, a->p);
  std::stringstream t;
  H_TRY(a->CP_Prove(x, y, a->g, a->h, alpha, t, true));
  vf_assert(vfh_exc == 0, "CP_Prove with tables does not throw for gg = g, hh = h");
  bool ok = false;
  H_TRY(ok = a->CP_Verify(x, y, a->g, a->h, t, true));
  vf_assert(vfh_exc == 0 && ok, "honest CP proof is accepted (fpowm_usage = true)");
  H_END();
}

H_ENTRY(h_masking) {
  BarnettSmartVTMF_dlog *a = mkvtmf();
  a->KeyGenerationProtocol_GenerateKey();
  a->KeyGenerationProtocol_Finalize();
  Z m, c1, c2, r, e;
  vfh_mpz(e, 0, H_Q); mpz_powm(m, a->g, e, a->p);          // arbitrary group element as message
  a->VerifiableMaskingProtocol_Mask(m, c1, c2, r);
  std::stringstream t;
  a->VerifiableMaskingProtocol_Prove(m, c1, c2, r, t);
  bool ok = false;
  H_TRY(ok = a->VerifiableMaskingProtocol_Verify(m, c1, c2, t));
  vf_assert(vfh_exc == 0 && ok, "honest masking proof is accepted");
  H_END();
}
H_ENTRY(h_remasking) {
  BarnettSmartVTMF_dlog *a = mkvtmf();
  a->KeyGenerationProtocol_GenerateKey();
  a->KeyGenerationProtocol_Finalize();
  Z c1, c2, d1, d2, r, e1, e2;
  vfh_mpz(e1, 0, H_Q); vfh_mpz(e2, 0, H_Q); mpz_powm(c1, a->g, e1, a->p); mpz_powm(c2, a->g, e2, a->p);
  a->VerifiableRemaskingProtocol_Mask(c1, c2, d1, d2, r);
  std::stringstream t;
  a->VerifiableRemaskingProtocol_Prove(c1, c2, d1, d2, r, t);
  bool ok = false;
  H_TRY(ok = a->VerifiableRemaskingProtocol_Verify(c1, c2, d1, d2, t));
  vf_assert(vfh_exc == 0 && ok, "honest re-masking proof is accepted");
  H_END();
}
H_ENTRY(h_decryption) {
  BarnettSmartVTMF_dlog *a = mkvtmf(), *b = mkvtmf();
  a->KeyGenerationProtocol_GenerateKey(); b->KeyGenerationProtocol_GenerateKey();
  std::stringstream ka, kb;
  a->KeyGenerationProtocol_PublishKey(ka); b->KeyGenerationProtocol_PublishKey(kb);
  vf_assume(b->KeyGenerationProtocol_UpdateKey(ka));
  vf_assume(a->KeyGenerationProtocol_UpdateKey(kb));
  a->KeyGenerationProtocol_Finalize(); b->KeyGenerationProtocol_Finalize();
  Z m, c1, c2, r, e, out;
  vfh_mpz(e, 0, H_Q); mpz_powm(m, a->g, e, a->p);
  a->VerifiableMaskingProtocol_Mask(m, c1, c2, r);
  // b opens with a's verified share
  std::stringstream t;
  a->VerifiableDecryptionProtocol_Prove(c1, t);
  b->VerifiableDecryptionProtocol_Verify_Initialize(c1);
  bool ok = false;
  H_TRY(ok = b->VerifiableDecryptionProtocol_Verify_Update(c1, t));
  vf_assert(vfh_exc == 0 && ok, "honest decryption share is accepted");
  b->VerifiableDecryptionProtocol_Verify_Finalize(c2, out);
  vf_assert(mpz_cmp(out, m) == 0, "with all shares the masked value opens to the message");
  H_END();
}
