// C10 (key validation part): TMCG_PublicKey::check() round-count tests. Shares all stubs with C10_rabin.cc (included below).
#define H_G_TEXT 1
#define vfstub10_g vfstub10_g_inner
#include "C10_rabin.cc"
#undef vfstub10_g
// challenges of the NIZK stages (text inputs): the oracle returns units modulo m, so that the "draw again" loops stop after one draw
void vfstub10_g(unsigned char *output, const size_t osize, const unsigned char *input, const size_t isize) {
  vfstub10_g_inner(output, osize, input, isize);
  if (isize > H_MD && osize == 3) {
    unsigned long v = (((unsigned long)output[0] << 16) | ((unsigned long)output[1] << 8) | (unsigned long)output[2]) % ((unsigned long)H_P * H_Q);
    vf_assume(v % H_P != 0 && v % H_Q != 0);
  }
}
// ================================================================= 4. key validation: a proof with fewer rounds than configured
// TMCG_PublicKey::check() on a key whose NIZK text announces (and carries) one round less than TMCG_KEY_NIZK_STAGEn in stage
// H_SHORT, everything else ARBITRARY (self-signature value, every proof value in [0,m)): refused for every choice.
// The challenge rejection loops ("draw again until the challenge is a unit") are bounded to one draw: the oracle returns units
// (stated exceptional set: a challenge divisible by p or q, probability about 2/p).
#ifdef H_SHORT
H_ENTRY(h_check_rounds) {
  TMCG_PublicKey pk;
  unsigned long mm = (unsigned long)H_P * H_Q;
  pk.name = ""; pk.email = ""; pk.type = "NIZK";
  mpz_set_ui(pk.m, mm); mpz_set_ui(pk.y, H_Y);
  std::string st = tok_text(vfh_range(0, (long)mm));
  pk.sig = "sig|ID2^" + st + "|" + st + "|";                  // self-signature with an arbitrary value; key id = "ID2^" + its text
  unsigned n1 = TMCG_KEY_NIZK_STAGE1 - (H_SHORT == 1), n2 = TMCG_KEY_NIZK_STAGE2 - (H_SHORT == 2), n3 = TMCG_KEY_NIZK_STAGE3 - (H_SHORT == 3);
  std::string nz = "nzk^";
  nz.push_back((char)('0' + n1)); nz.push_back('^'); for (unsigned i = 0; i < n1; ++i) { nz += tok_text(vfh_range(0, (long)mm)); nz.push_back('^'); }
  nz.push_back((char)('0' + n2)); nz.push_back('^'); for (unsigned i = 0; i < n2; ++i) { nz += tok_text(vfh_range(0, (long)mm)); nz.push_back('^'); }
  nz.push_back((char)('0' + n3)); nz.push_back('^'); for (unsigned i = 0; i < n3; ++i) { nz += tok_text(vfh_range(0, (long)mm)); nz.push_back('^'); }
  pk.nizk = nz;
  bool ok = true; H_TRY(ok = pk.check());
  vf_assert(vfh_exc == 0, "check returns");
  vf_assert(!ok, "a key whose validity proof has fewer rounds than configured is refused, whatever the proof values and the self-signature");
  H_END();
}
#endif

