// C12: text importers of cards, card secrets, stacks and stack secrets on hostile input.
// A well-formed text is damaged in ONE place per query: the byte at position H_POS (enumerated by slices) is replaced by an
// arbitrary byte (all 256 values, symbolic), or - H_TRUNC - the text is cut at H_POS. The engine reports out-of-bounds accesses,
// aborts, failed library assertions and invalid iterator ranges by itself; the harness adds: only standard exceptions, and an
// accepted object respects the configured limits (no allocation beyond TMCG_MAX_PLAYERS/TYPEBITS/CARDS).
#include "vfh_gmp.hh"
#include "TMCG_Card.hh"
#include "TMCG_CardSecret.hh"
#include "VTMF_Card.hh"
#include "VTMF_CardSecret.hh"
#include "TMCG_Stack.hh"
#include "TMCG_OpenStack.hh"
#include "TMCG_StackSecret.hh"
#include <string>
#include <sstream>
#ifndef H_POS
#define H_POS 0
#endif
static std::string damage(const char *valid) {
  std::string s(valid);
#ifdef H_TRUNC
  if ((size_t)H_POS < s.size()) s.resize(H_POS);
#else
  if ((size_t)H_POS < s.size()) { unsigned char c = vf_nondet_u8(); vf_assume(c != 0); s[H_POS] = (char)c; }   // NUL ends the C string the callers pass on: covered by truncation
#endif
  return s;
}
#define IMPORT(obj, txt) bool ok = false; std::string s = damage(txt); H_TRY(ok = (obj).import(s)); vf_assert(vfh_exc == 0 || vfh_exc == 1, "importer ends with a result or a standard exception")
H_ENTRY(h_imp_vtmf_card)   { VTMF_Card c; IMPORT(c, "crd|5|1x|"); H_END(); }
H_ENTRY(h_imp_vtmf_cs)     { VTMF_CardSecret c; IMPORT(c, "crs|1x|"); H_END(); }
H_ENTRY(h_imp_tmcg_card)   { TMCG_Card c; IMPORT(c, "crd|2|1|3|4|");
  if (ok) vf_assert(c.z.size() >= 1 && c.z.size() <= TMCG_MAX_PLAYERS && c.z[0].size() >= 1 && c.z[0].size() <= TMCG_MAX_TYPEBITS, "accepted card respects the configured player / type-bit limits");
  H_END(); }
H_ENTRY(h_imp_tmcg_cs)     { TMCG_CardSecret c; IMPORT(c, "crs|2|1|3|1|4|0|");
  if (ok) vf_assert(c.r.size() >= 1 && c.r.size() <= TMCG_MAX_PLAYERS && c.r[0].size() >= 1 && c.r[0].size() <= TMCG_MAX_TYPEBITS && c.b.size() == c.r.size(), "accepted card secret respects the configured limits");
  H_END(); }
H_ENTRY(h_imp_stack)       { TMCG_Stack<VTMF_Card> st; IMPORT(st, "stk^2^crd|5|7|^crd|1|2|^");
  if (ok) vf_assert(st.size() >= 1 && st.size() <= TMCG_MAX_CARDS, "accepted stack respects the configured card limit");
  H_END(); }
H_ENTRY(h_imp_stacksecret) { TMCG_StackSecret<VTMF_CardSecret> st; IMPORT(st, "sts^2^1^crs|5|^0^crs|7|^");
  if (ok) { vf_assert(st.size() >= 1 && st.size() <= TMCG_MAX_CARDS, "accepted stack secret respects the configured card limit");
            for (size_t i = 0; i < st.size(); ++i) vf_assert(st[i].first < st.size(), "accepted indices are below the size"); }
  H_END(); }
// the stream operators copy a line into a fixed buffer of TMCG_MAX_CARD_CHARS before importing it
H_ENTRY(h_imp_vtmf_card_stream) {
  std::string s = damage("crd|5|1x|"); std::stringstream in(s + "\n"); VTMF_Card c;
  H_TRY(in >> c); vf_assert(vfh_exc == 0 || vfh_exc == 1, "stream import ends with a result or a standard exception");
  if (!in.good()) vf_assert(mpz_cmp_ui(c.c_1, 0) == 0 && mpz_cmp_ui(c.c_2, 0) == 0, "a refused card is zeroed");
  H_END(); }
