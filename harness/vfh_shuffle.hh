// vfh_shuffle.hh - scaffolding shared by the stack-level harnesses (C02_mix, C03_vsshe, C03_vrhe, C04_cutchoose)
//  * vfs_shash_*: the memoised nondeterministic hash of vfh_proto.hh with a wider key (the shuffle / rotation arguments hash up to
//    40 integers per call; vfh_proto.hh keeps 20 and would silently drop the tail, i.e. model a hash that ignores some inputs)
//  * vfs_randomb: coin stub for tmcg_mpz_*randomb whose next values can be fixed (interactive forms: the verifier's challenges
//    are chosen up front, handed to the prover as its input stream and fixed as the verifier's coins = transcript fixed point)
//  * vfs_flip: stand-in for JareckiLysyanskayaEDCF::Flip_twoparty (public-coin forms): both parties obtain the same value
//  * toy-group helpers in plain long arithmetic (oracles)
#ifndef VFH_SHUFFLE_HH
#define VFH_SHUFFLE_HH
#include "vfh_proto.hh"
#include <cstdarg>

// ---------------------------------------------------------------- oracle side: arithmetic in the exponent domain
// Every element of the order-q subgroup is g^e; the oracles work on e with concrete tables (a 64-bit '%' on symbolic operands
// costs the solver more than the whole library code under test). vfs_tables() fills them with concrete loops.
#ifndef VFS_QMAX
#define VFS_QMAX 12
#endif
static long vfs_gpow[VFS_QMAX];                 // g^e mod p, e in [0,q)
static long vfs_mulq_t[VFS_QMAX * VFS_QMAX];    // a*b mod q
#define VFS_M8 -1, -1, -1, -1, -1, -1, -1, -1
static long vfs_dlog_t[64] = { VFS_M8, VFS_M8, VFS_M8, VFS_M8, VFS_M8, VFS_M8, VFS_M8, VFS_M8 };   // dlog_g(y) for y in the subgroup, -1 otherwise (p < 64)
static void __attribute__((noinline)) vfs_tables(long p, long q, long g) {
  long v = 1; for (long e = 0; e < q; ++e) { vfs_gpow[e] = v; v = (v * g) % p; }
  for (long a = 0; a < q; ++a) for (long b = 0; b < q; ++b) vfs_mulq_t[a * VFS_QMAX + b] = (a * b) % q;
  for (long e = 0; e < q; ++e) vfs_dlog_t[vfs_gpow[e]] = e;
}
static inline long vfs_addq(long a, long b, long q) { long s = a + b; return s >= q ? s - q : s; }        // a, b in [0,q)
static inline long vfs_subq(long a, long b, long q) { long s = a - b; return s < 0 ? s + q : s; }
static inline long vfs_mulq(long a, long b) { return vfs_mulq_t[a * VFS_QMAX + b]; }
// concrete-only helper (never call with symbolic arguments)
static inline long vfs_cpow(long b, long e, long m) { long r = 1 % m; for (long i = 0; i < e; ++i) r = (r * b) % m; return r; }

// ---------------------------------------------------------------- wide hash model
#ifndef VFS_HARGS
#define VFS_HARGS 44
#endif
#ifndef VFS_HMAX
#define VFS_HMAX H_HMAX
#endif
// harness hook: extra assumption on a fresh digest o of a call whose leading marker is tag (stated exceptional sets)
#ifndef VFS_DIGEST_ASSUME
#define VFS_DIGEST_ASSUME(tag, o) do { } while (0)
#endif
static bool vfs_forbid_on = false; static long vfs_forbid = 0;        // Fiat-Shamir unpredictability, as vfh_forbid*
static unsigned vfs_hcnt[VFS_HMAX]; static long vfs_hkey[VFS_HMAX * VFS_HARGS]; static unsigned long vfs_hout[VFS_HMAX]; static unsigned vfs_hn = 0;
static unsigned vfs_fresh = 0;   // number of digests of not yet seen inputs (a verifier that re-derives the prover's challenges adds none)
extern "C" void __vf_model_bound(void);
static void vfs_digest(mpz_ptr r, unsigned n, const long *vals) {
  for (unsigned e = 0; e < VFS_HMAX; ++e) {
    if (e >= vfs_hn) break;
    if (vfs_hcnt[e] != n) continue;
    bool same = true;
    for (unsigned i = 0; i < n; ++i) if (vfs_hkey[e * VFS_HARGS + i] != vals[i]) same = false;
    if (same) { mpz_set_ui(r, vfs_hout[e]); return; }
  }
  vf_assume(vfs_hn < VFS_HMAX);
  unsigned long o;
#ifdef VFS_DIGEST_FIX
  // harness hook: a slice may pin the digest of the call with leading marker tag to a concrete value (>= 0)
  long fx_ = VFS_DIGEST_FIX(vals[0]);
  if (fx_ >= 0) o = (unsigned long)fx_; else
#endif
  o = vf_nondet_below(1UL << H_DBITS);
  if (vfs_forbid_on) vf_assume((long)o != vfs_forbid);
  VFS_DIGEST_ASSUME(vals[0], o);
#ifdef H_COLLISION_FREE
  for (unsigned e = 0; e < VFS_HMAX; ++e) { if (e >= vfs_hn) break; vf_assume(vfs_hout[e] != o); }
#endif
  unsigned slot = vfs_hn;
  vfs_hcnt[slot] = n; for (unsigned i = 0; i < n; ++i) vfs_hkey[slot * VFS_HARGS + i] = vals[i];
  vfs_hout[slot] = o; vfs_hn = slot + 1; ++vfs_fresh;
  mpz_set_ui(r, o);
}
// a key that does not fit is a model bound (inconclusive), never a silently shortened key
#define VFS_PUSH(x) do { if (k >= VFS_HARGS) __vf_model_bound(); else vals[k++] = (x); } while (0)
static inline void vfs_push_vec(long *vals, unsigned &k, const std::vector<mpz_ptr>& v) {
  VFS_PUSH(-2000 - (long)v.size());
  for (size_t i = 0; i < v.size(); ++i) VFS_PUSH(vfh_val(v[i]));
}
static inline void vfs_push_pvec(long *vals, unsigned &k, const std::vector<std::pair<mpz_ptr, mpz_ptr> >& v) {
  VFS_PUSH(-3000 - (long)v.size());
  for (size_t i = 0; i < v.size(); ++i) { VFS_PUSH(vfh_val(v[i].first)); VFS_PUSH(vfh_val(v[i].second)); }
}
#define VFS_VA_TAIL() do { va_list ap; va_start(ap, n); for (size_t i = 0; i < n; ++i) { mpz_srcptr a = va_arg(ap, mpz_srcptr); VFS_PUSH(vfh_val(a)); } va_end(ap); } while (0)
// leading markers: -1000-n plain, -1100-n one vector, -1200-n two vectors, -1400-n four vectors, -1500-n two pair vectors,
// -1600-n two pair vectors + two vectors, -1700-n four pair vectors + two vectors (n = number of trailing integers)
void vfs_shash_va(mpz_ptr r, size_t n, ...) {
  long vals[VFS_HARGS]; unsigned k = 0; VFS_PUSH(-1000 - (long)n); VFS_VA_TAIL(); vfs_digest(r, k, vals);
}
void vfs_shash_1vec(mpz_ptr r, const std::vector<mpz_ptr>& v, size_t n, ...) {
  long vals[VFS_HARGS]; unsigned k = 0; VFS_PUSH(-1100 - (long)n); vfs_push_vec(vals, k, v); VFS_VA_TAIL(); vfs_digest(r, k, vals);
}
void vfs_shash_2vec(mpz_ptr r, const std::vector<mpz_ptr>& v, const std::vector<mpz_ptr>& w, size_t n, ...) {
  long vals[VFS_HARGS]; unsigned k = 0; VFS_PUSH(-1200 - (long)n); vfs_push_vec(vals, k, v); vfs_push_vec(vals, k, w); VFS_VA_TAIL(); vfs_digest(r, k, vals);
}
void vfs_shash_4vec(mpz_ptr r, const std::vector<mpz_ptr>& v, const std::vector<mpz_ptr>& w, const std::vector<mpz_ptr>& x, const std::vector<mpz_ptr>& y, size_t n, ...) {
  long vals[VFS_HARGS]; unsigned k = 0; VFS_PUSH(-1400 - (long)n); vfs_push_vec(vals, k, v); vfs_push_vec(vals, k, w); vfs_push_vec(vals, k, x); vfs_push_vec(vals, k, y); VFS_VA_TAIL(); vfs_digest(r, k, vals);
}
void vfs_shash_2pairvec(mpz_ptr r, const std::vector<std::pair<mpz_ptr, mpz_ptr> >& vp, const std::vector<std::pair<mpz_ptr, mpz_ptr> >& wp, size_t n, ...) {
  long vals[VFS_HARGS]; unsigned k = 0; VFS_PUSH(-1500 - (long)n); vfs_push_pvec(vals, k, vp); vfs_push_pvec(vals, k, wp); VFS_VA_TAIL(); vfs_digest(r, k, vals);
}
void vfs_shash_2pairvec2vec(mpz_ptr r, const std::vector<std::pair<mpz_ptr, mpz_ptr> >& vp, const std::vector<std::pair<mpz_ptr, mpz_ptr> >& wp,
                            const std::vector<mpz_ptr>& v, const std::vector<mpz_ptr>& w, size_t n, ...) {
  long vals[VFS_HARGS]; unsigned k = 0; VFS_PUSH(-1600 - (long)n); vfs_push_pvec(vals, k, vp); vfs_push_pvec(vals, k, wp); vfs_push_vec(vals, k, v); vfs_push_vec(vals, k, w); VFS_VA_TAIL(); vfs_digest(r, k, vals);
}
void vfs_shash_4pairvec2vec(mpz_ptr r, const std::vector<std::pair<mpz_ptr, mpz_ptr> >& vp, const std::vector<std::pair<mpz_ptr, mpz_ptr> >& wp,
                            const std::vector<std::pair<mpz_ptr, mpz_ptr> >& xp, const std::vector<std::pair<mpz_ptr, mpz_ptr> >& yp,
                            const std::vector<mpz_ptr>& v, const std::vector<mpz_ptr>& w, size_t n, ...) {
  long vals[VFS_HARGS]; unsigned k = 0; VFS_PUSH(-1700 - (long)n); vfs_push_pvec(vals, k, vp); vfs_push_pvec(vals, k, wp); vfs_push_pvec(vals, k, xp); vfs_push_pvec(vals, k, yp);
  vfs_push_vec(vals, k, v); vfs_push_vec(vals, k, w); VFS_VA_TAIL(); vfs_digest(r, k, vals);
}
// hash of a text (hash commitment of the cut-and-choose proof): the whole text is folded into the key, 7 bytes per entry
void vfs_shash_str(mpz_ptr r, const std::string& s) {
  long vals[VFS_HARGS]; unsigned k = 0; VFS_PUSH(-1900 - (long)s.size());
  long acc = 0; unsigned cnt = 0;
  for (size_t i = 0; i < s.size(); ++i) { acc = (acc << 8) | (unsigned char)s[i]; if (++cnt == 7) { VFS_PUSH(acc); acc = 0; cnt = 0; } }
  if (cnt) VFS_PUSH(acc);
  vfs_digest(r, k, vals);
}

// ---------------------------------------------------------------- fixable bit coins
static long vfs_bfix[16]; static unsigned vfs_nbfix = 0, vfs_bfix_used = 0;
static inline void vfs_fix_bits(long v) { if (vfs_nbfix < 16) vfs_bfix[vfs_nbfix++] = v; }
extern "C" void vfs_randomb(mpz_ptr r, unsigned long size) {
  vf_assume(++vfh_draws <= H_MAXDRAWS);
  vf_assume(size < 63);
  if (vfs_bfix_used < vfs_nbfix) mpz_set_ui(r, (unsigned long)vfs_bfix[vfs_bfix_used++] & ((1UL << size) - 1));
  else mpz_set_ui(r, vf_nondet_below(1UL << size));
}

// ---------------------------------------------------------------- bounded sampler of the permutation / rotation generators
// tmcg_mpz_srandom_mod(m) by its contract: an arbitrary value in [0, m) (the sampler itself is the subject of C07)
extern "C" unsigned long vfstub_random_mod(unsigned long m) { vf_assume(m >= 1); return m == 1 ? 0 : vf_nondet_below(m); }

// ---------------------------------------------------------------- public coins: stand-in for the two-party coin flip
// JareckiLysyanskayaEDCF::Flip_twoparty(i, a, in, out, err, faulty): the protocol itself is the subject of C17. Here both
// parties read the agreed values from one list (arbitrary values in [0, q)); nothing travels over the streams.
static long vfs_pub[12]; static unsigned vfs_npub = 0, vfs_pub_used[2] = {0, 0};
class JareckiLysyanskayaEDCF;
bool vfs_flip(JareckiLysyanskayaEDCF *self, size_t i, mpz_ptr a, std::istream &in, std::ostream &out, std::ostream &err, bool faulty) {
  (void)self; (void)in; (void)out; (void)err; (void)faulty;
  unsigned who = (i == 0) ? 0 : 1;
  vf_assume(vfs_pub_used[who] < vfs_npub);
  mpz_set_si(a, vfs_pub[vfs_pub_used[who]++]);
  return true;
}
#endif
