// C11: export -> import -> export identity through the REAL textual transport operators (base-62 text)
#include "vfh_gmp.hh"
#include "mpz_helper.hh"
#include "VTMF_Card.hh"
#include "VTMF_CardSecret.hh"
#include <sstream>
#include <string>
#ifndef H_VMAX
#define H_VMAX 4000
#endif
struct ZZ { mpz_t v; ZZ() { mpz_init(v); } ~ZZ() { mpz_clear(v); } };
H_ENTRY(h_mpz_text) {
  ZZ a, b; vfh_mpz(a.v, -H_VMAX, H_VMAX + 1);
  std::stringstream s, s2;
  s << a.v << std::endl;
  std::string t1 = s.str();
  H_TRY(s >> b.v);
  vf_assert(vfh_exc == 0, "importing an exported integer does not throw");
  vf_assert(mpz_cmp(a.v, b.v) == 0, "integer survives the textual transport encoding unchanged (incl. zero and negatives)");
  s2 << b.v << std::endl;
  vf_assert(s2.str() == t1, "re-export yields the identical text");
  H_END();
}
H_ENTRY(h_vtmf_card_text) {
  VTMF_Card c, d;
  // a slice may fix one component to a concrete (multi-digit) value: one symbolic text field per query is cheap, two are not
#ifdef H_FIX1
  mpz_set_si(c.c_1, H_FIX1);
#else
  vfh_mpz(c.c_1, 0, H_VMAX);
#endif
#ifdef H_FIX2
  mpz_set_si(c.c_2, H_FIX2);
#else
  vfh_mpz(c.c_2, 0, H_VMAX);
#endif
  mpz_set_ui(d.c_1, 77); mpz_set_ui(d.c_2, 99);                 // import into a used object
  std::stringstream s, s2; s << c;
  std::string t1 = s.str();
  bool ok = false; H_TRY(ok = d.import(t1));
  vf_assert(vfh_exc == 0 && ok, "exported card imports");
  vf_assert(c == d, "imported card equals the original");
  s2 << d; vf_assert(s2.str() == t1, "re-export yields the identical text");
  H_END();
}
