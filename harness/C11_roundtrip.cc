// C11: export -> import -> export identity through the REAL textual transport operators (base-62 text)
#include "vfh_gmp.hh"
#include "mpz_helper.hh"
#include "VTMF_Card.hh"
#include "VTMF_CardSecret.hh"
#include <sstream>
#include <string>
#ifndef H_VMAX
#define H_VMAX 4000
#endif
struct ZZ { mpz_t v; ZZ() { mpz_init(v); } ~ZZ() { mpz_clear(v); } };
H_ENTRY(h_mpz_text) {
  ZZ a, b; vfh_mpz(a.v, -H_VMAX, H_VMAX + 1);
  std::stringstream s, s2;
  s << a.v << std::endl;
  std::string t1 = s.str();
  H_TRY(s >> b.v);
  vf_assert(vfh_exc == 0, "importing an exported integer does not throw");
  vf_assert(mpz_cmp(a.v, b.v) == 0, "integer survives the textual transport encoding unchanged (incl. zero and negatives)");
  s2 << b.v << std::endl;
  vf_assert(s2.str() == t1, "re-export yields the identical text");
  H_END();
}
H_ENTRY(h_vtmf_card_text) {
  VTMF_Card c, d;
  // a slice may fix one component to a concrete (multi-digit) value: one symbolic text field per query is cheap, two are not
#ifdef H_FIX1
  mpz_set_si(c.c_1, H_FIX1);
#else
  vfh_mpz(c.c_1, 0, H_VMAX);
#endif
#ifdef H_FIX2
  mpz_set_si(c.c_2, H_FIX2);
#else
  vfh_mpz(c.c_2, 0, H_VMAX);
#endif
  mpz_set_ui(d.c_1, 77); mpz_set_ui(d.c_2, 99);                 // import into a used object
  std::stringstream s, s2; s << c;
  std::string t1 = s.str();
  bool ok = false; H_TRY(ok = d.import(t1));
  vf_assert(vfh_exc == 0 && ok, "exported card imports");
  vf_assert(c == d, "imported card equals the original");
  s2 << d; vf_assert(s2.str() == t1, "re-export yields the identical text");
  H_END();
}

// key-ring card copied into a USED object of another shape: the object is resized (grow / shrink / rebuild branches of
// TMCG_Card::resize, the routine behind import, operator>> and operator=) and must afterwards have the new shape and equal the
// source; shapes are enumerated by slices, all values are symbolic. (The same through the text importer did not close in 15 min.)
#include "TMCG_Card.hh"
#ifndef H_K0
#define H_K0 3
#define H_W0 2
#define H_K1 2
#define H_W1 2
#endif
H_ENTRY(h_tmcg_card_resize) {
  TMCG_Card src(H_K1, H_W1), dst(H_K0, H_W0), r(H_K0, H_W0);
  for (size_t k = 0; k < H_K1; ++k) for (size_t w = 0; w < H_W1; ++w) vfh_mpz(&src.z[k][w], 0, 4000);
  for (size_t k = 0; k < H_K0; ++k) for (size_t w = 0; w < H_W0; ++w) { vfh_mpz(&dst.z[k][w], 0, 4000); mpz_set(&r.z[k][w], &dst.z[k][w]); }
  r.resize(H_K1, H_W1);
  vf_assert(r.z.size() == H_K1, "resize: number of player rows");
  for (size_t k = 0; k < r.z.size(); ++k) vf_assert(r.z[k].size() == H_W1, "resize: every row has the requested number of type bits");
  if (H_W0 == H_W1) for (size_t k = 0; k < H_K1 && k < H_K0; ++k) for (size_t w = 0; w < H_W1; ++w) vf_assert(mpz_cmp(&r.z[k][w], &dst.z[k][w]) == 0, "resize keeps the surviving rows");
  dst = src;
  vf_assert(dst.z.size() == H_K1 && dst.z[0].size() == H_W1, "assignment into a used object: shape of the source");
  vf_assert(dst == src, "assignment into a used object of another shape copies the card");
  H_END();
}
