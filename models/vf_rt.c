/* vf_rt.c - runtime shared by the CBMC build and the native (gcc) build of generated C:
   exceptions, allocation, nondeterminism, misc intrinsics. */
#include <stdlib.h>
#include <string.h>
#include <stdio.h>
#include "vf.h"
typedef unsigned char u8; typedef unsigned int u32; typedef unsigned long u64;

#ifdef __CPROVER__
u8 nondet_u8(void); unsigned short nondet_u16(void); u32 nondet_u32(void); u64 nondet_u64(void);
#define VF_FAIL(msg) do { __CPROVER_assert(0, msg); __CPROVER_assume(0); } while (0)
#else
#define VF_FAIL(msg) do { fprintf(stderr, "VF_FAIL: %s\n", msg); fflush(stdout); exit(70); } while (0)
#endif

/* ---------------- nondeterminism ---------------- */
#ifndef VF_MAXNONDET
#define VF_MAXNONDET 256
#endif
u64 vf_nondet_log[VF_MAXNONDET];
u32 vf_nondet_n;
#ifdef __CPROVER__
static u64 vf_draw(u64 v) { if (vf_nondet_n < VF_MAXNONDET) vf_nondet_log[vf_nondet_n] = v; vf_nondet_n++; return v; }
uint8_t vf_nondet_u8(void) { return (uint8_t)vf_draw(nondet_u8()); }
uint16_t vf_nondet_u16(void) { return (uint16_t)vf_draw(nondet_u16()); }
uint32_t vf_nondet_u32(void) { return (uint32_t)vf_draw(nondet_u32()); }
uint64_t vf_nondet_u64(void) { return vf_draw(nondet_u64()); }
void vf_assume(int c) { __CPROVER_assume(c); }
void vf_observe(const char *label, uint64_t v) { (void)label; (void)v; }
#else
static u64 *vf_replay; static u32 vf_replay_n; static int vf_replay_loaded;
static void vf_load(void) {
  vf_replay_loaded = 1;
  const char *p = getenv("VF_REPLAY_VALUES");
  if (!p) return;
  FILE *f = fopen(p, "r"); if (!f) return;
  vf_replay = malloc(sizeof(u64) * 65536);
  while (vf_replay_n < 65536 && fscanf(f, "%lu", &vf_replay[vf_replay_n]) == 1) vf_replay_n++;
  fclose(f);
}
static u64 vf_draw(void) { if (!vf_replay_loaded) vf_load(); u64 v = vf_nondet_n < vf_replay_n ? vf_replay[vf_nondet_n] : 0; vf_nondet_n++; return v; }
uint8_t vf_nondet_u8(void) { return (uint8_t)vf_draw(); }
uint16_t vf_nondet_u16(void) { return (uint16_t)vf_draw(); }
uint32_t vf_nondet_u32(void) { return (uint32_t)vf_draw(); }
uint64_t vf_nondet_u64(void) { return vf_draw(); }
void vf_assume(int c) { if (!c) { printf("VF_ASSUME_FAILED\n"); fflush(stdout); exit(77); } }
void vf_observe(const char *label, uint64_t v) { printf("OBS %s %lu\n", label, v); }
void vf_assert_native(int c, const char *label) { if (!c) { printf("VF_ASSERT_FAILED %s\n", label); fflush(stdout); exit(71); } }
#endif
uint64_t vf_nondet_below(uint64_t n) { u64 v = vf_nondet_u64(); vf_assume(v < n); return v; }
void vf_abort(const char *why) { (void)why; VF_FAIL("vf_abort: process death in library/model"); }

/* ---------------- C++ exceptions ---------------- */
int vf_exc_pending; void *vf_exc_obj; void *vf_exc_type;
static void *vf_caught_obj[8]; static void *vf_caught_type[8]; static int vf_caught_n;
int vf_exc_type_id(void *ti); void *vf_exc_type_base(void *ti);
void *__cxa_allocate_exception(u64 n) { void *p = malloc(n); return p; }
void __cxa_free_exception(void *p) { (void)p; }
void __cxa_throw(void *obj, void *ti, void *dtor) { (void)dtor; vf_exc_obj = obj; vf_exc_type = ti; vf_exc_pending = 1; }
void *vf_exc_enter_lpad(void) { vf_exc_pending = 0; return vf_exc_obj; }
int vf_exc_matches(int tid) {
  void *cur = vf_exc_type; int i;
  for (i = 0; i < 6 && cur; ++i) { if (vf_exc_type_id(cur) == tid) return 1; cur = vf_exc_type_base(cur); }
  return 0;
}
void vf_resume(void *obj) { vf_exc_obj = obj; vf_exc_pending = 1; }
void *__cxa_begin_catch(void *obj) { if (vf_caught_n < 8) { vf_caught_obj[vf_caught_n] = obj; vf_caught_type[vf_caught_n] = vf_exc_type; } vf_caught_n++; vf_exc_pending = 0; return obj; }
void __cxa_end_catch(void) { if (vf_caught_n > 0) vf_caught_n--; }
void __cxa_rethrow(void) { if (vf_caught_n > 0 && vf_caught_n <= 8) { vf_exc_obj = vf_caught_obj[vf_caught_n - 1]; vf_exc_type = vf_caught_type[vf_caught_n - 1]; } vf_exc_pending = 1; }
void __cxa_pure_virtual(void) { VF_FAIL("pure virtual call"); }
int __cxa_guard_acquire(u64 *g) { return *(u8 *)g == 0; }
void __cxa_guard_release(u64 *g) { *(u8 *)g = 1; }
void __cxa_guard_abort(u64 *g) { (void)g; }
int __cxa_atexit(void *f, void *a, void *d) { (void)f; (void)a; (void)d; return 0; }
void _ZSt9terminatev(void) { VF_FAIL("std::terminate"); }
int vf_uncaught(void) { return vf_exc_pending; }
void vf_clear_uncaught(void) { vf_exc_pending = 0; }
extern int vf_exc_kind_of(void *ti);
int vf_uncaught_kind(void) { if (!vf_exc_pending) return 0; return vf_exc_kind_of(vf_exc_type); }

void vf_assert_fail(const char *e, const char *f, unsigned l, const char *fn) { (void)e; (void)f; (void)l; (void)fn; VF_FAIL("library assert() failed: process abort"); }
void vf_abort_call(void) { VF_FAIL("abort() called: process abort"); }
void vf_exit_call(int c) { (void)c; VF_FAIL("exit() called from library code"); }

/* ---------------- allocation ---------------- */
void *_Znwm(u64 n) { void *p = malloc(n ? n : 1);
#ifdef __CPROVER__
  __CPROVER_assume(p != 0);
#endif
  return p; }
void *_Znam(u64 n) { return _Znwm(n); }
void _ZdlPv(void *p) { free(p); }
void _ZdaPv(void *p) { free(p); }
void _ZdlPvm(void *p, u64 n) { (void)n; free(p); }
void _ZdaPvm(void *p, u64 n) { (void)n; free(p); }
void *vf_alloca(u64 n) { return _Znwm(n); }
#ifndef __CPROVER__
void *vf_typed_alloc(void *p) { return p; }
#endif

/* ---------------- intrinsics ---------------- */
struct vf_va_list { u32 gp_offset, fp_offset; void *overflow_arg_area, *reg_save_area; };
void vf_va_start(void *ap, u64 *va) { struct vf_va_list *l = ap; l->gp_offset = 48; l->fp_offset = 304; l->overflow_arg_area = va; l->reg_save_area = 0; }
void *vf_memcpy(void *d, const void *s, u64 n) { if (n) memcpy(d, s, n); return d; }
void *vf_memmove(void *d, const void *s, u64 n) { if (n) memmove(d, s, n); return d; }
void *vf_memset(void *d, int c, u64 n) { if (n) memset(d, c, n); return d; }
u8 *vf_libc_memcpy(u8 *d, const u8 *s, u64 n) { if (n) memcpy(d, s, n); return d; }
u8 *vf_libc_memmove(u8 *d, const u8 *s, u64 n) { if (n) memmove(d, s, n); return d; }
u8 *vf_libc_memset(u8 *d, u32 c, u64 n) { if (n) memset(d, (int)c, n); return d; }
void vf_unreachable(void) { VF_FAIL("llvm unreachable executed (undefined behaviour in source)"); }
void vf_trap(void) { VF_FAIL("llvm.trap"); }
#define CLZ(N) u64 vf_ctlz##N(u64 x) { u64 n = 0; int i; for (i = N - 1; i >= 0; --i) { if ((x >> i) & 1) break; n++; } return n; } \
  u64 vf_cttz##N(u64 x) { u64 n = 0; int i; for (i = 0; i < N; ++i) { if ((x >> i) & 1) break; n++; } return n; } \
  u64 vf_ctpop##N(u64 x) { u64 n = 0; int i; for (i = 0; i < N; ++i) n += (x >> i) & 1; return n; }
CLZ(8) CLZ(16) CLZ(32) CLZ(64)
u64 vf_bswap16(u64 x) { return ((x & 0xff) << 8) | ((x >> 8) & 0xff); }
u64 vf_bswap32(u64 x) { return ((x & 0xff) << 24) | ((x & 0xff00) << 8) | ((x >> 8) & 0xff00) | ((x >> 24) & 0xff); }
u64 vf_bswap64(u64 x) { return (vf_bswap32(x & 0xffffffffUL) << 32) | vf_bswap32(x >> 32); }

/* ---------------- entry ---------------- */
void vf_global_ctors(void);
void vf_harness(void);
int main(void) {
  vf_global_ctors();
  vf_harness();
#ifndef __CPROVER__
  printf("VF_DONE uncaught=%d nondet=%u\n", vf_exc_pending, vf_nondet_n);
#endif
  return 0;
}
