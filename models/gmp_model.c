/* gmp_model.c - bounded-integer model of the GMP mpz API (contract: GMP 6.2 manual).
   A value is sign (-1,0,1) + magnitude < 2^VF_BITS.  Every operation whose mathematical result
   does not fit reports MODEL-BOUND (an inconclusive verdict for the harness, never a pruned path,
   unless the harness is built with -DVF_BOUND_ASSUME, which is then listed as an assumption).
   Arithmetic is carried out in the narrowest C type that holds 2*VF_BITS bits. */
#include <stdlib.h>
#include <string.h>
#include "include/gmp.h"
#include "vf.h"

#ifndef VF_BITS
#define VF_BITS 16
#endif
typedef unsigned char u8; typedef unsigned int u32; typedef unsigned long u64; typedef unsigned __int128 u128; typedef __int128 s128;
#ifdef __CPROVER__
/* exact-width working types. Every value AND every intermediate product is < 2^VF_BITS (checked), so storage,
   addition, division and remainder run at VF_BITS+2 bits; only the multiplier itself is 2*VF_BITS wide. */
#define WBITS (((VF_BITS + 2 + 7) / 8) * 8)     /* CBMC wants byte-multiple widths for objects in memory */
#define WWBITS (((2 * VF_BITS + 2 + 7) / 8) * 8)
typedef unsigned __CPROVER_bitvector[WBITS] W; typedef signed __CPROVER_bitvector[WBITS] SW;
typedef unsigned __CPROVER_bitvector[WWBITS] WW; typedef signed __CPROVER_bitvector[WWBITS] SWW;
#elif VF_BITS <= 31
typedef u64 W; typedef long SW; typedef u64 WW; typedef long SWW;
#define WBITS 64
#elif VF_BITS <= 63
typedef u128 W; typedef s128 SW; typedef u128 WW; typedef s128 SWW;
#define WBITS 128
#else
#error VF_BITS too large
#endif
#define LIM (((W)1) << VF_BITS)

#ifdef __CPROVER__
#ifdef VF_BOUND_ASSUME
#define BOUND() __CPROVER_assume(0)
#else
#define BOUND() do { __CPROVER_assert(0, "MODEL-BOUND gmp value exceeds 2^VF_BITS"); __CPROVER_assume(0); } while (0)
#endif
#define UNSUPPORTED(m) do { __CPROVER_assert(0, "MODEL-UNSUPPORTED " m); __CPROVER_assume(0); } while (0)
#else
#include <stdio.h>
#define BOUND() do { printf("VF_MODEL_BOUND\n"); fflush(stdout); exit(72); } while (0)
#define UNSUPPORTED(m) do { printf("VF_MODEL_UNSUPPORTED %s\n", m); fflush(stdout); exit(73); } while (0)
#endif
#define DIVZERO() vf_abort("gmp: division by zero")

const char *const __gmp_version = "6.2.1";
const int __gmp_bits_per_limb = 64;
void __gmp_set_memory_functions(void *(*a)(size_t), void *(*b)(void *, size_t, size_t), void (*c)(void *, size_t)) { (void)a; (void)b; (void)c; }

static inline W MAG(mpz_srcptr a) {
#if WBITS > 64
  return (((W)a->_vf_hi) << 64) | (W)a->_vf_lo;
#else
  return (W)a->_vf_lo;
#endif
}
static inline void SETM(mpz_ptr r, int sign, W m) {
  if (m >= LIM) BOUND();
  r->_vf_lo = (u64)m;
#if WBITS > 64
  r->_vf_hi = (u64)(m >> 64);
#else
  r->_vf_hi = 0;
#endif
  r->_mp_size = (m == 0) ? 0 : (sign < 0 ? -1 : 1);
}
static inline void SETS(mpz_ptr r, SW v) { if (v < 0) SETM(r, -1, (W)(-v)); else SETM(r, 1, (W)v); }
static inline SW SVAL(mpz_srcptr a) { return a->_mp_size < 0 ? -(SW)MAG(a) : (SW)MAG(a); }
/* a*b with overflow of the working type reported as bound */
static inline W MULW(W a, W b) { WW p = (WW)a * (WW)b; if (p >= (WW)LIM) BOUND(); return (W)p; }   /* a, b < 2^VF_BITS; the product must be too */
static W from_ul(unsigned long v) { W w = (W)v; if ((unsigned long)w != v) BOUND(); return w; }

void __gmpz_init(mpz_ptr r) { r->_mp_alloc = 1; r->_mp_size = 0; r->_vf_lo = 0; r->_vf_hi = 0; }
void __gmpz_init2(mpz_ptr r, mp_bitcnt_t n) { (void)n; __gmpz_init(r); }
void __gmpz_clear(mpz_ptr r) { r->_mp_alloc = 0; }
void __gmpz_realloc2(mpz_ptr r, mp_bitcnt_t n) { (void)r; (void)n; }
void __gmpz_set(mpz_ptr r, mpz_srcptr a) { int s = a->_mp_size; W m = MAG(a); SETM(r, s, m); }
void __gmpz_set_ui(mpz_ptr r, unsigned long v) { SETM(r, 1, from_ul(v)); }
void __gmpz_set_si(mpz_ptr r, long v) { if (v < 0) SETM(r, -1, from_ul(0UL - (unsigned long)v)); else SETM(r, 1, from_ul((unsigned long)v)); }
void __gmpz_swap(mpz_ptr a, mpz_ptr b) { __mpz_struct t = *a; *a = *b; *b = t; }
void __gmpz_init_set(mpz_ptr r, mpz_srcptr a) { __mpz_struct t = *a; __gmpz_init(r); __gmpz_set(r, &t); }
void __gmpz_init_set_ui(mpz_ptr r, unsigned long v) { __gmpz_init(r); __gmpz_set_ui(r, v); }
void __gmpz_init_set_si(mpz_ptr r, long v) { __gmpz_init(r); __gmpz_set_si(r, v); }
unsigned long __gmpz_get_ui(mpz_srcptr a) { return a->_vf_lo; }
long __gmpz_get_si(mpz_srcptr a) { unsigned long m = a->_vf_lo & 0x7fffffffffffffffUL; return a->_mp_size < 0 ? -(long)m : (long)m; }
int __gmpz_fits_ulong_p(mpz_srcptr a) { return a->_mp_size >= 0 && a->_vf_hi == 0; }
int __gmpz_fits_slong_p(mpz_srcptr a) { return a->_vf_hi == 0 && (a->_vf_lo <= 0x7fffffffffffffffUL || (a->_mp_size < 0 && a->_vf_lo == 0x8000000000000000UL)); }
int __gmpz_fits_uint_p(mpz_srcptr a) { return a->_mp_size >= 0 && a->_vf_hi == 0 && a->_vf_lo <= 0xffffffffUL; }
int __gmpz_fits_sint_p(mpz_srcptr a) { return a->_vf_hi == 0 && (a->_vf_lo <= 0x7fffffffUL || (a->_mp_size < 0 && a->_vf_lo == 0x80000000UL)); }

/* ---- comparisons ---- */
int __gmpz_cmpabs(mpz_srcptr a, mpz_srcptr b) { W x = MAG(a), y = MAG(b); return x < y ? -1 : (x > y ? 1 : 0); }
int __gmpz_cmp(mpz_srcptr a, mpz_srcptr b) {
  int sa = a->_mp_size, sb = b->_mp_size;
  if (sa != sb) return sa < sb ? -1 : 1;
  int c = __gmpz_cmpabs(a, b); return sa < 0 ? -c : c;
}
int __gmpz_cmpabs_ui(mpz_srcptr a, unsigned long v) { if (a->_vf_hi) return 1; return a->_vf_lo < v ? -1 : (a->_vf_lo > v ? 1 : 0); }
int __gmpz_vf_cmp_ui(mpz_srcptr a, unsigned long v) { if (a->_mp_size < 0) return -1; return __gmpz_cmpabs_ui(a, v); }
int __gmpz_vf_cmp_si(mpz_srcptr a, long v) {
  if (v >= 0) return __gmpz_vf_cmp_ui(a, (unsigned long)v);
  if (a->_mp_size >= 0) return 1;
  return -__gmpz_cmpabs_ui(a, 0UL - (unsigned long)v);
}
int __gmpz_vf_sgn(mpz_srcptr a) { return a->_mp_size; }
int __gmpz_vf_odd_p(mpz_srcptr a) { return (int)(a->_vf_lo & 1); }

/* ---- add / sub / mul ---- */
void __gmpz_add(mpz_ptr r, mpz_srcptr a, mpz_srcptr b) { SETS(r, SVAL(a) + SVAL(b)); }
void __gmpz_sub(mpz_ptr r, mpz_srcptr a, mpz_srcptr b) { SETS(r, SVAL(a) - SVAL(b)); }
void __gmpz_add_ui(mpz_ptr r, mpz_srcptr a, unsigned long v) { SETS(r, SVAL(a) + (SW)from_ul(v)); }
void __gmpz_sub_ui(mpz_ptr r, mpz_srcptr a, unsigned long v) { SETS(r, SVAL(a) - (SW)from_ul(v)); }
void __gmpz_ui_sub(mpz_ptr r, unsigned long v, mpz_srcptr a) { SETS(r, (SW)from_ul(v) - SVAL(a)); }
void __gmpz_mul(mpz_ptr r, mpz_srcptr a, mpz_srcptr b) { int s = a->_mp_size * b->_mp_size; SETM(r, s, MULW(MAG(a), MAG(b))); }
void __gmpz_mul_ui(mpz_ptr r, mpz_srcptr a, unsigned long v) { int s = a->_mp_size; SETM(r, s, MULW(MAG(a), from_ul(v))); }
void __gmpz_mul_si(mpz_ptr r, mpz_srcptr a, long v) { int s = a->_mp_size * (v < 0 ? -1 : 1); SETM(r, s, MULW(MAG(a), from_ul(v < 0 ? 0UL - (unsigned long)v : (unsigned long)v))); }
void __gmpz_addmul(mpz_ptr r, mpz_srcptr a, mpz_srcptr b) { SW p = (SW)MULW(MAG(a), MAG(b)); if (a->_mp_size * b->_mp_size < 0) p = -p; SETS(r, SVAL(r) + p); }
void __gmpz_submul(mpz_ptr r, mpz_srcptr a, mpz_srcptr b) { SW p = (SW)MULW(MAG(a), MAG(b)); if (a->_mp_size * b->_mp_size < 0) p = -p; SETS(r, SVAL(r) - p); }
void __gmpz_mul_2exp(mpz_ptr r, mpz_srcptr a, mp_bitcnt_t n) { int s = a->_mp_size; W m = MAG(a); if (m == 0) { SETM(r, 0, 0); return; } if (n >= VF_BITS) BOUND(); SETM(r, s, m << n); }
void __gmpz_neg(mpz_ptr r, mpz_srcptr a) { int s = -a->_mp_size; SETM(r, s, MAG(a)); }
void __gmpz_abs(mpz_ptr r, mpz_srcptr a) { SETM(r, 1, MAG(a)); }

/* ---- division ---- */
void __gmpz_mod(mpz_ptr r, mpz_srcptr a, mpz_srcptr d) {
  W m = MAG(d); if (m == 0) DIVZERO();
  W x = MAG(a) % m; if (a->_mp_size < 0 && x != 0) x = m - x; SETM(r, 1, x);
}
unsigned long __gmpz_fdiv_r_ui(mpz_ptr r, mpz_srcptr a, unsigned long d) {
  if (d == 0) DIVZERO();
  W m = from_ul(d); W x = MAG(a) % m; if (a->_mp_size < 0 && x != 0) x = m - x; SETM(r, 1, x); return (unsigned long)x;
}
unsigned long __gmpz_fdiv_ui(mpz_srcptr a, unsigned long d) {
  if (d == 0) DIVZERO();
  W m = from_ul(d); W x = MAG(a) % m; if (a->_mp_size < 0 && x != 0) x = m - x; return (unsigned long)x;
}
static void fdiv_qr(mpz_ptr q, mpz_ptr r, mpz_srcptr a, mpz_srcptr d) {
  W m = MAG(d); if (m == 0) DIVZERO();
  W x = MAG(a); W qq = x / m, rr = x % m; int sq = a->_mp_size * d->_mp_size; int sd = d->_mp_size;
  /* floor: if signs differ and remainder nonzero, q = -(qq+1), r = d - sign-adjusted */
  if (sq < 0 && rr != 0) { qq += 1; rr = m - rr; }
  if (q) SETM(q, sq, qq);
  if (r) SETM(r, sd, rr);
}
void __gmpz_fdiv_q(mpz_ptr q, mpz_srcptr a, mpz_srcptr d) { __mpz_struct A = *a, D = *d; fdiv_qr(q, 0, &A, &D); }
void __gmpz_fdiv_r(mpz_ptr r, mpz_srcptr a, mpz_srcptr d) { __mpz_struct A = *a, D = *d; fdiv_qr(0, r, &A, &D); }
void __gmpz_fdiv_qr(mpz_ptr q, mpz_ptr r, mpz_srcptr a, mpz_srcptr d) { __mpz_struct A = *a, D = *d; fdiv_qr(q, r, &A, &D); }
unsigned long __gmpz_fdiv_q_ui(mpz_ptr q, mpz_srcptr a, unsigned long d) {
  if (d == 0) DIVZERO();
  __mpz_struct D, R; __gmpz_init(&D); __gmpz_init(&R); __gmpz_set_ui(&D, d); __mpz_struct A = *a; fdiv_qr(q, &R, &A, &D); return R._vf_lo;
}
void __gmpz_fdiv_q_2exp(mpz_ptr q, mpz_srcptr a, mp_bitcnt_t n) {
  W x = MAG(a); int s = a->_mp_size; W qq, rem;
  if (n >= WBITS) { qq = 0; rem = x; } else { qq = x >> n; rem = x & ((((W)1) << n) - 1); }
  if (s < 0 && rem != 0) qq += 1;
  SETM(q, s, qq);
}
void __gmpz_fdiv_r_2exp(mpz_ptr r, mpz_srcptr a, mp_bitcnt_t n) {
  W x = MAG(a); int s = a->_mp_size; W rem;
  if (n >= VF_BITS) { if (s < 0 && x != 0) BOUND(); rem = x; } else { rem = x & ((((W)1) << n) - 1); if (s < 0 && rem != 0) rem = (((W)1) << n) - rem; }
  SETM(r, 1, rem);
}
static void tdiv_qr(mpz_ptr q, mpz_ptr r, mpz_srcptr a, mpz_srcptr d) {
  W m = MAG(d); if (m == 0) DIVZERO();
  W x = MAG(a); int sq = a->_mp_size * d->_mp_size; int sa = a->_mp_size;
  W qq = x / m, rr = x % m;
  if (q) SETM(q, sq, qq);
  if (r) SETM(r, sa, rr);
}
void __gmpz_tdiv_q(mpz_ptr q, mpz_srcptr a, mpz_srcptr d) { __mpz_struct A = *a, D = *d; tdiv_qr(q, 0, &A, &D); }
void __gmpz_tdiv_r(mpz_ptr r, mpz_srcptr a, mpz_srcptr d) { __mpz_struct A = *a, D = *d; tdiv_qr(0, r, &A, &D); }
void __gmpz_tdiv_qr(mpz_ptr q, mpz_ptr r, mpz_srcptr a, mpz_srcptr d) { __mpz_struct A = *a, D = *d; tdiv_qr(q, r, &A, &D); }
unsigned long __gmpz_tdiv_q_ui(mpz_ptr q, mpz_srcptr a, unsigned long d) {
  if (d == 0) DIVZERO();
  W m = from_ul(d); W x = MAG(a); int s = a->_mp_size; SETM(q, s, x / m); return (unsigned long)(x % m);
}
unsigned long __gmpz_tdiv_ui(mpz_srcptr a, unsigned long d) { if (d == 0) DIVZERO(); return (unsigned long)(MAG(a) % from_ul(d)); }
void __gmpz_tdiv_q_2exp(mpz_ptr q, mpz_srcptr a, mp_bitcnt_t n) { W x = MAG(a); int s = a->_mp_size; SETM(q, s, n >= WBITS ? 0 : x >> n); }
void __gmpz_tdiv_r_2exp(mpz_ptr r, mpz_srcptr a, mp_bitcnt_t n) { W x = MAG(a); int s = a->_mp_size; SETM(r, s, n >= VF_BITS ? x : (x & ((((W)1) << n) - 1))); }
void __gmpz_cdiv_q(mpz_ptr q, mpz_srcptr a, mpz_srcptr d) {
  W m = MAG(d); if (m == 0) DIVZERO();
  W x = MAG(a); W qq = x / m, rr = x % m; int sq = a->_mp_size * d->_mp_size;
  if (sq > 0 && rr != 0) qq += 1;
  SETM(q, sq, qq);
}
void __gmpz_divexact(mpz_ptr q, mpz_srcptr a, mpz_srcptr d) { __gmpz_tdiv_q(q, a, d); }
void __gmpz_divexact_ui(mpz_ptr q, mpz_srcptr a, unsigned long d) { (void)__gmpz_tdiv_q_ui(q, a, d); }
int __gmpz_divisible_p(mpz_srcptr a, mpz_srcptr d) { W m = MAG(d); if (m == 0) return MAG(a) == 0; return MAG(a) % m == 0; }
int __gmpz_divisible_ui_p(mpz_srcptr a, unsigned long d) { if (d == 0) return MAG(a) == 0; return MAG(a) % from_ul(d) == 0; }
int __gmpz_congruent_p(mpz_srcptr a, mpz_srcptr c, mpz_srcptr d) {
  W m = MAG(d); SW diff = SVAL(a) - SVAL(c); W ad = diff < 0 ? (W)(-diff) : (W)diff;
  if (m == 0) return ad == 0;
  return ad % m == 0;
}
int __gmpz_congruent_ui_p(mpz_srcptr a, unsigned long c, unsigned long d) {
  SW diff = SVAL(a) - (SW)from_ul(c); W ad = diff < 0 ? (W)(-diff) : (W)diff;
  if (d == 0) return ad == 0;
  return ad % from_ul(d) == 0;
}

#ifdef __CPROVER__
_Bool nondet_vf_bool(void); unsigned long nondet_vf_ul(void);
#define nondet_vf_w() ((W)nondet_vf_ul())
#endif
/* ---- number theory ---- */
/* Euclid on values < 2^B takes at most 1.4405*B + 2 division steps (Lame) */
#define EUCLID_STEPS ((VF_BITS * 3) / 2 + 3)
static W gcdw(W a, W b) {
#ifdef __CPROVER__
  /* certificate instead of the Euclid loop: g divides both and is an integer combination of them (Bezout) => g = gcd */
  if (a == 0) return b; if (b == 0) return a;
  { W g = nondet_vf_w(), s = nondet_vf_w(), t = nondet_vf_w();
    __CPROVER_assume(g >= 1 && g <= a && g <= b && a % g == 0 && b % g == 0 && s <= b && t <= a);
    __CPROVER_assume((WW)s * (WW)a == (WW)t * (WW)b + (WW)g || (WW)t * (WW)b == (WW)s * (WW)a + (WW)g);
    return g; }
#else
  unsigned i; for (i = 0; i < EUCLID_STEPS && b != 0; ++i) { W t = a % b; a = b; b = t; } return a;
#endif
}
void __gmpz_gcd(mpz_ptr r, mpz_srcptr a, mpz_srcptr b) { SETM(r, 1, gcdw(MAG(a), MAG(b))); }
unsigned long __gmpz_gcd_ui(mpz_ptr r, mpz_srcptr a, unsigned long b) { W g = gcdw(MAG(a), from_ul(b)); if (r) SETM(r, 1, g); return (unsigned long)g; }
void __gmpz_lcm(mpz_ptr r, mpz_srcptr a, mpz_srcptr b) { W x = MAG(a), y = MAG(b); if (x == 0 || y == 0) { SETM(r, 0, 0); return; } SETM(r, 1, MULW(x / gcdw(x, y), y)); }
/* extended Euclid on magnitudes: g = s*a + t*b */
static W egcd(W a, W b, SW *s, SW *t) {
  SWW s0 = 1, s1 = 0, t0 = 0, t1 = 1; unsigned i;
  for (i = 0; i < EUCLID_STEPS && b != 0; ++i) {
    W q = a / b, r = a % b;
    SWW s2 = s0 - (SWW)q * s1, t2 = t0 - (SWW)q * t1;
    a = b; b = r; s0 = s1; s1 = s2; t0 = t1; t1 = t2;
  }
  *s = (SW)s0; *t = (SW)t0; return a;
}
void __gmpz_gcdext(mpz_ptr g, mpz_ptr s, mpz_ptr t, mpz_srcptr a, mpz_srcptr b) {
  SW ss, tt; int sa = a->_mp_size, sb = b->_mp_size; W x = MAG(a), y = MAG(b);
  W gg = egcd(x, y, &ss, &tt);
  if (sa < 0) ss = -ss; if (sb < 0) tt = -tt;
  SETM(g, 1, gg); if (s) SETS(s, ss); if (t) SETS(t, tt);
}
int __gmpz_invert(mpz_ptr r, mpz_srcptr a, mpz_srcptr m) {
  W mm = MAG(m); if (mm == 0) DIVZERO();
  W x = MAG(a) % mm; if (a->_mp_size < 0 && x != 0) x = mm - x;
  if (mm == 1) { SETM(r, 0, 0); return 1; }
#ifdef __CPROVER__
  /* Solver-friendly formulation (no Euclid loop): the result is fixed by a certificate either way.
     inverse exists  <=> some y in [1,mm) has x*y = 1 (mod mm)   (y is then unique);
     no inverse      <=> some d > 1 divides both x and mm.
     Exactly one of the two certificates exists for every (x, mm), so no behaviour is added or lost. */
  if (nondet_vf_bool()) {
    W y = nondet_vf_w(); __CPROVER_assume(y >= 1 && y < mm && MULW(x, y) % mm == 1);
    SETM(r, 1, y); return 1;
  } else {
    W d = nondet_vf_w(); __CPROVER_assume(d > 1 && d <= mm && x % d == 0 && mm % d == 0);
    return 0;
  }
#else
  SW ss, tt; W g = egcd(x, mm, &ss, &tt);
  if (g != 1) return 0;
  if (ss < 0) ss += (SW)mm;
  SETM(r, 1, (W)ss % mm); return 1;
#endif
}
int __gmpz_jacobi(mpz_srcptr a, mpz_srcptr n) {
  W nn = MAG(n); if ((nn & 1) == 0) UNSUPPORTED("jacobi with even modulus");
  W aa = MAG(a) % nn; int res = 1; unsigned i;
  if (a->_mp_size < 0) { if (aa != 0) aa = nn - aa; }
  if (n->_mp_size < 0 && a->_mp_size < 0) res = -res;
  for (i = 0; i < 3 * VF_BITS + 4 && aa != 0; ++i) {
    if ((aa & 1) == 0) { aa >>= 1; if ((nn & 7) == 3 || (nn & 7) == 5) res = -res; }
    else { W t = aa; aa = nn; nn = t; if ((aa & 3) == 3 && (nn & 3) == 3) res = -res; aa = aa % nn; }
  }
  return nn == 1 ? res : 0;
}
int __gmpz_probab_prime_p(mpz_srcptr a, int reps) {
  (void)reps; W n = MAG(a); W d;
  if (n < 2) return 0; if (n < 4) return 2; if ((n & 1) == 0) return 0;
  for (d = 3; d < ((W)1 << ((VF_BITS + 1) / 2)) + 2 && (WW)d * (WW)d <= (WW)n; d += 2) if (n % d == 0) return 0;
  return 2;
}
void __gmpz_nextprime(mpz_ptr r, mpz_srcptr a) {
  __mpz_struct t; __gmpz_init(&t); SW v = SVAL(a); if (v < 1) v = 1; unsigned i;
  for (i = 0; i < 64; ++i) { v += 1; SETS(&t, v); if (__gmpz_probab_prime_p(&t, 1)) { SETS(r, v); return; } }
  UNSUPPORTED("nextprime gap");
}
static W powmw(W b, W e, W m) {
  W res = 1 % m; unsigned i; b %= m;
  for (i = 0; i < VF_BITS + 1 && e != 0; ++i) { if (e & 1) res = MULW(res, b) % m; e >>= 1; if (e) b = MULW(b, b) % m; }
  return res;
}
void __gmpz_powm(mpz_ptr r, mpz_srcptr b, mpz_srcptr e, mpz_srcptr m) {
  W mm = MAG(m); if (mm == 0) DIVZERO();
  W bb = MAG(b) % mm; if (b->_mp_size < 0 && bb != 0) bb = mm - bb;
  W ee = MAG(e);
  if (e->_mp_size < 0) {
    __mpz_struct t, bm, M; __gmpz_init(&t); __gmpz_init(&bm); __gmpz_init(&M); SETM(&bm, 1, bb); SETM(&M, 1, mm);
    if (!__gmpz_invert(&t, &bm, &M)) DIVZERO();
    bb = MAG(&t);
  }
  SETM(r, 1, powmw(bb, ee, mm));
}
void __gmpz_powm_sec(mpz_ptr r, mpz_srcptr b, mpz_srcptr e, mpz_srcptr m) {
  /* documented: exponent > 0, modulus odd; GMP aborts (divide by zero) otherwise */
  if (e->_mp_size <= 0 || (m->_vf_lo & 1) == 0) DIVZERO();
  __gmpz_powm(r, b, e, m);
}
void __gmpz_powm_ui(mpz_ptr r, mpz_srcptr b, unsigned long e, mpz_srcptr m) {
  W mm = MAG(m); if (mm == 0) DIVZERO();
  W bb = MAG(b) % mm; if (b->_mp_size < 0 && bb != 0) bb = mm - bb;
  SETM(r, 1, powmw(bb, from_ul(e), mm));
}
void __gmpz_ui_pow_ui(mpz_ptr r, unsigned long b, unsigned long e) {
  W res = 1; W bb = from_ul(b); unsigned long i;
  if (e == 0) { SETM(r, 1, 1); return; }
  if (bb <= 1) { SETM(r, 1, bb); return; }
  for (i = 0; i < e; ++i) { if (i > VF_BITS) BOUND(); res = MULW(res, bb); if (res >= LIM) BOUND(); }
  SETM(r, 1, res);
}
void __gmpz_pow_ui(mpz_ptr r, mpz_srcptr b, unsigned long e) {
  W bb = MAG(b); int s = (b->_mp_size < 0 && (e & 1)) ? -1 : 1; W res = 1; unsigned long i;
  if (e == 0) { SETM(r, 1, 1); return; }
  if (bb <= 1) { SETM(r, s, bb); return; }
  for (i = 0; i < e; ++i) { if (i > VF_BITS) BOUND(); res = MULW(res, bb); if (res >= LIM) BOUND(); }
  SETM(r, s, res);
}
void __gmpz_sqrt(mpz_ptr r, mpz_srcptr a) {
  W n = MAG(a), x = 0; int i; if (a->_mp_size < 0) DIVZERO();
  for (i = (VF_BITS + 1) / 2; i >= 0; --i) { W t = x | (((W)1) << i); if ((WW)t * (WW)t <= (WW)n) x = t; }
  SETM(r, 1, x);
}
int __gmpz_perfect_square_p(mpz_srcptr a) { __mpz_struct t; if (a->_mp_size < 0) return 0; __gmpz_init(&t); __gmpz_sqrt(&t, a); return (WW)MAG(&t) * (WW)MAG(&t) == (WW)MAG(a); }

/* ---- bits ---- */
static unsigned bitlen(W x) { unsigned n = 0; unsigned i; for (i = 0; i < VF_BITS + 1 && x != 0; ++i) { x >>= 1; n++; } return n; }
size_t __gmpz_size(mpz_srcptr a) { return a->_vf_hi ? 2 : (a->_vf_lo ? 1 : 0); }
size_t __gmpz_sizeinbase(mpz_srcptr a, int base) {
  W x = MAG(a); unsigned bl = bitlen(x);
  if (x == 0) return 1;
  if (base == 2) return bl;
  if (base == 4) return (bl + 1) / 2; if (base == 8) return (bl + 2) / 3; if (base == 16) return (bl + 3) / 4; if (base == 32) return (bl + 4) / 5;
  if (base < 2 || base > 62) UNSUPPORTED("sizeinbase base");
  { size_t n = 0; unsigned i; W bb = (W)base; for (i = 0; i < VF_BITS + 1 && x != 0; ++i) { x /= bb; n++; } return n + 1; /* "exact or 1 too big": the model returns the too-big answer */ }
}
int __gmpz_tstbit(mpz_srcptr a, mp_bitcnt_t n) {
  if (a->_mp_size < 0) UNSUPPORTED("tstbit on negative value");
  if (n >= WBITS) return 0; return (int)((MAG(a) >> n) & 1);
}
void __gmpz_setbit(mpz_ptr r, mp_bitcnt_t n) { if (r->_mp_size < 0) UNSUPPORTED("setbit on negative"); if (n >= VF_BITS) BOUND(); SETM(r, 1, MAG(r) | (((W)1) << n)); }
void __gmpz_clrbit(mpz_ptr r, mp_bitcnt_t n) { if (r->_mp_size < 0) UNSUPPORTED("clrbit on negative"); if (n >= WBITS) return; SETM(r, 1, MAG(r) & ~(((W)1) << n)); }
mp_bitcnt_t __gmpz_scan1(mpz_srcptr a, mp_bitcnt_t from) {
  W x = MAG(a); mp_bitcnt_t i; if (a->_mp_size < 0) UNSUPPORTED("scan1 on negative");
  for (i = from; i < VF_BITS + 1; ++i) if ((x >> i) & 1) return i;
  return ~(mp_bitcnt_t)0;
}
mp_bitcnt_t __gmpz_scan0(mpz_srcptr a, mp_bitcnt_t from) {
  W x = MAG(a); mp_bitcnt_t i; if (a->_mp_size < 0) UNSUPPORTED("scan0 on negative");
  for (i = from; i < VF_BITS + 1; ++i) if (!((x >> i) & 1)) return i;
  return from > VF_BITS ? from : VF_BITS + 1;
}
mp_bitcnt_t __gmpz_popcount(mpz_srcptr a) { W x = MAG(a); mp_bitcnt_t n = 0; unsigned i; if (a->_mp_size < 0) return ~(mp_bitcnt_t)0; for (i = 0; i < VF_BITS + 1; ++i) n += (x >> i) & 1; return n; }
void __gmpz_and(mpz_ptr r, mpz_srcptr a, mpz_srcptr b) { if (a->_mp_size < 0 || b->_mp_size < 0) UNSUPPORTED("and on negative"); SETM(r, 1, MAG(a) & MAG(b)); }
void __gmpz_ior(mpz_ptr r, mpz_srcptr a, mpz_srcptr b) { if (a->_mp_size < 0 || b->_mp_size < 0) UNSUPPORTED("ior on negative"); SETM(r, 1, MAG(a) | MAG(b)); }
void __gmpz_xor(mpz_ptr r, mpz_srcptr a, mpz_srcptr b) { if (a->_mp_size < 0 || b->_mp_size < 0) UNSUPPORTED("xor on negative"); SETM(r, 1, MAG(a) ^ MAG(b)); }

/* ---- strings ---- */
static int digit_of(unsigned char c, int base) {
  int d;
  if (c >= '0' && c <= '9') d = c - '0';
  else if (base <= 36) { if (c >= 'a' && c <= 'z') d = c - 'a' + 10; else if (c >= 'A' && c <= 'Z') d = c - 'A' + 10; else return -1; }
  else { if (c >= 'A' && c <= 'Z') d = c - 'A' + 10; else if (c >= 'a' && c <= 'z') d = c - 'a' + 36; else return -1; }
  return d < base ? d : -1;
}
static int is_space(unsigned char c) { return c == ' ' || c == '\t' || c == '\n' || c == '\v' || c == '\f' || c == '\r'; }
int __gmpz_set_str(mpz_ptr r, const char *s, int base) {
  size_t i = 0; int neg = 0; W v = 0; size_t nd = 0;
  if (base != 0 && (base < 2 || base > 62)) return -1;
  while (is_space((unsigned char)s[i])) ++i;
  if (s[i] == '-') { neg = 1; ++i; }
  if (base == 0) {
    base = 10;
    if (s[i] == '0') { base = 8; ++i; nd = 1; if (s[i] == 'x' || s[i] == 'X') { base = 16; ++i; nd = 0; } else if (s[i] == 'b' || s[i] == 'B') { base = 2; ++i; nd = 0; } }
  }
  for (; s[i] != 0; ++i) {
    unsigned char c = (unsigned char)s[i];
    if (is_space(c)) continue;
    int d = digit_of(c, base); if (d < 0) return -1;
    { WW vv = (WW)v * (WW)base + (WW)d; if (vv >= (WW)LIM) BOUND(); v = (W)vv; }
    ++nd;
  }
  if (nd == 0) return -1;
  SETM(r, neg ? -1 : 1, v); return 0;
}
int __gmpz_init_set_str(mpz_ptr r, const char *s, int base) { __gmpz_init(r); return __gmpz_set_str(r, s, base); }
char *__gmpz_get_str(char *buf, int base, mpz_srcptr a) {
  char tmp[VF_BITS + 3]; size_t k = 0, o = 0, j; W x = MAG(a); int upper = 0;
  if (base < 0) { base = -base; upper = 1; }
  if (base == 0 || base == 1) base = 10;
  if (base > 62) return 0;
  if (x == 0) tmp[k++] = '0';
  while (x != 0 && k < VF_BITS + 2) {
    unsigned d = (unsigned)(x % (W)base); x /= (W)base;
    char c;
    if (d < 10) c = (char)('0' + d);
    else if (base <= 36) c = (char)((upper ? 'A' : 'a') + (d - 10));
    else c = (char)(d < 36 ? 'A' + (d - 10) : 'a' + (d - 36));
    tmp[k++] = c;
  }
  if (!buf) buf = malloc(k + 2);
  if (a->_mp_size < 0) buf[o++] = '-';
  for (j = 0; j < k; ++j) buf[o++] = tmp[k - 1 - j];
  buf[o] = 0;
  return buf;
}

/* ---- import / export (nails must be 0) ---- */
void __gmpz_import(mpz_ptr r, size_t count, int order, size_t size, int endian, size_t nails, const void *op) {
  const u8 *p = op; W v = 0; size_t w, b;
  if (nails != 0) UNSUPPORTED("import nails");
  if (endian == 0) endian = -1;
  for (w = 0; w < count; ++w) {
    size_t wi = (order == 1) ? w : count - 1 - w;      /* most significant word first */
    for (b = 0; b < size; ++b) {
      size_t bi = (endian == 1) ? b : size - 1 - b;    /* most significant byte first */
      v = (v << 8) | (W)p[wi * size + bi];
      if (v >= LIM) BOUND();
    }
  }
  SETM(r, 1, v);
}
void *__gmpz_export(void *rop, size_t *countp, int order, size_t size, int endian, size_t nails, mpz_srcptr a) {
  W x = MAG(a); size_t nbytes = (bitlen(x) + 7) / 8; size_t count, w, b; u8 *p;
  if (nails != 0) UNSUPPORTED("export nails");
  if (size == 0) UNSUPPORTED("export size 0");
  if (endian == 0) endian = -1;
  count = (nbytes + size - 1) / size;
  if (countp) *countp = count;
  if (count == 0) return rop;
  if (!rop) rop = malloc(count * size);
  p = rop;
  for (w = 0; w < count; ++w) {
    size_t wi = (order == 1) ? count - 1 - w : w;      /* w counts from least significant word */
    for (b = 0; b < size; ++b) {
      size_t bi = (endian == 1) ? size - 1 - b : b;    /* b counts from least significant byte */
      size_t sh = 8 * (w * size + b);
      p[wi * size + bi] = sh >= WBITS ? 0 : (u8)(x >> sh);
    }
  }
  return rop;
}
