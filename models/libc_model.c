/* libc_model.c - the few libc functions libtmcg uses that CBMC has no (or an unsuitable) built-in model for.
   Written from ISO C / POSIX. */
#include <stddef.h>
#include <limits.h>
#include "vf.h"
static int lc_space(unsigned char c) { return c == ' ' || c == '\t' || c == '\n' || c == '\v' || c == '\f' || c == '\r'; }
unsigned long strtoul(const char *s, char **end, int base) {
  const unsigned char *p = (const unsigned char *)s; unsigned long v = 0; int neg = 0, any = 0, ovf = 0;
  while (lc_space(*p)) ++p;
  if (*p == '-') { neg = 1; ++p; } else if (*p == '+') ++p;
  if ((base == 0 || base == 16) && p[0] == '0' && (p[1] == 'x' || p[1] == 'X')) {
    unsigned char c = p[2]; if ((c >= '0' && c <= '9') || (c >= 'a' && c <= 'f') || (c >= 'A' && c <= 'F')) { p += 2; base = 16; }
  }
  if (base == 0) base = (*p == '0') ? 8 : 10;
  for (;;) {
    unsigned char c = *p; unsigned d;
    if (c >= '0' && c <= '9') d = c - '0'; else if (c >= 'a' && c <= 'z') d = c - 'a' + 10; else if (c >= 'A' && c <= 'Z') d = c - 'A' + 10; else break;
    if (d >= (unsigned)base) break;
    if (v > (ULONG_MAX - d) / (unsigned long)base) ovf = 1; else v = v * (unsigned long)base + d;
    any = 1; ++p;
  }
  if (end) *end = (char *)(any ? (const char *)p : s);
  if (ovf) return ULONG_MAX;
  return neg ? 0UL - v : v;
}
long strtol(const char *s, char **end, int base) { return (long)strtoul(s, end, base); }
int atoi(const char *s) { return (int)strtoul(s, 0, 10); }
/* time(): an arbitrary non-decreasing instant (seconds), below 2^40; the values handed out are logged for the harness */
static long lc_now = 0; static long lc_log[8]; static unsigned lc_calls = 0;
long vf_time_seen(unsigned k) { return k < lc_calls && k < 8 ? lc_log[k] : -1; }
long time(long *t) {
  unsigned long d = vf_nondet_u64(); vf_assume(d < (1UL << 40)); vf_assume((long)d >= lc_now);
  lc_now = (long)d; if (lc_calls < 8) lc_log[lc_calls] = lc_now; ++lc_calls;
  if (t) *t = lc_now; return lc_now;
}
