/* gcry_model.c - the part of libgcrypt the encoded harnesses need (contract: libgcrypt 1.10 manual, "MPI library",
   "Random Numbers"). An MPI is sign + magnitude of at most VF_MPI_BYTES big-endian bytes (larger values: MODEL-BOUND).
   Public-key operations, digests, MACs and ciphers are NOT modelled here. */
#include <stdlib.h>
#include <string.h>
#include "vf.h"
#ifndef VF_MPI_BYTES
#define VF_MPI_BYTES 8
#endif
typedef unsigned char u8; typedef unsigned int u32;
struct gcry_mpi { int neg; u32 nbytes; u8 m[VF_MPI_BYTES]; };   /* m[0..nbytes) big-endian, no leading zero byte */
typedef struct gcry_mpi *gcry_mpi_t;
#ifdef __CPROVER__
#define MBOUND() do { __CPROVER_assert(0, "MODEL-BOUND gcry_mpi larger than VF_MPI_BYTES"); __CPROVER_assume(0); } while (0)
#define MUNSUP(m) do { __CPROVER_assert(0, "MODEL-UNSUPPORTED " m); __CPROVER_assume(0); } while (0)
#else
#include <stdio.h>
#define MBOUND() do { printf("VF_MODEL_BOUND\n"); exit(72); } while (0)
#define MUNSUP(m) do { printf("VF_MODEL_UNSUPPORTED %s\n", m); exit(73); } while (0)
#endif
#define GPG_ERR_TOO_SHORT 66
#define GPG_ERR_INV_ARG 45
#define GPG_ERR_INV_OBJ 65
enum { FMT_STD = 1, FMT_PGP = 2, FMT_SSH = 3, FMT_HEX = 4, FMT_USG = 5 };
static u32 mk_err(u32 code) { return code ? ((1u << 24) | code) : 0; }   /* source GPG_ERR_SOURCE_GCRYPT */
static gcry_mpi_t mpi_alloc(void) { gcry_mpi_t a = malloc(sizeof(struct gcry_mpi)); a->neg = 0; a->nbytes = 0; memset(a->m, 0, VF_MPI_BYTES); return a; }
gcry_mpi_t gcry_mpi_new(unsigned nbits) { (void)nbits; return mpi_alloc(); }
gcry_mpi_t gcry_mpi_snew(unsigned nbits) { (void)nbits; return mpi_alloc(); }
void gcry_mpi_release(gcry_mpi_t a) { if (a) free(a); }
gcry_mpi_t gcry_mpi_copy(const gcry_mpi_t a) { gcry_mpi_t r = mpi_alloc(); if (a) *r = *a; return r; }
gcry_mpi_t gcry_mpi_set(gcry_mpi_t w, const gcry_mpi_t u) { if (!w) w = mpi_alloc(); *w = *u; return w; }
gcry_mpi_t gcry_mpi_set_ui(gcry_mpi_t w, unsigned long u) {
  if (!w) w = mpi_alloc();
  w->neg = 0; w->nbytes = 0; { int i; u8 t[8]; int n = 0; for (i = 7; i >= 0; --i) { u8 b = (u8)(u >> (8 * i)); if (n || b) t[n++] = b; } if ((u32)n > VF_MPI_BYTES) MBOUND(); for (i = 0; i < n; ++i) w->m[i] = t[i]; w->nbytes = (u32)n; }
  return w;
}
unsigned gcry_mpi_get_nbits(const gcry_mpi_t a) {
  if (!a || a->nbytes == 0) return 0;
  { unsigned top = a->m[0], n = 0; while (top) { ++n; top >>= 1; } return (a->nbytes - 1) * 8 + n; }
}
int gcry_mpi_cmp(const gcry_mpi_t a, const gcry_mpi_t b) {
  u32 i;
  if (a->neg != b->neg) return a->neg ? -1 : 1;
  if (a->nbytes != b->nbytes) return ((a->nbytes < b->nbytes) ^ a->neg) ? -1 : 1;
  for (i = 0; i < a->nbytes; ++i) if (a->m[i] != b->m[i]) return ((a->m[i] < b->m[i]) ^ a->neg) ? -1 : 1;
  return 0;
}
int gcry_mpi_cmp_ui(const gcry_mpi_t a, unsigned long v) { struct gcry_mpi t; gcry_mpi_t p = &t; t.neg = 0; t.nbytes = 0; gcry_mpi_set_ui(p, v); return gcry_mpi_cmp(a, p); }
int gcry_mpi_is_neg(const gcry_mpi_t a) { return a->neg; }
/* scan: USG = unsigned big-endian bytes; PGP = two-octet bit count followed by the bytes; STD/HEX/SSH unsupported here */
u32 gcry_mpi_scan(gcry_mpi_t *ret, int fmt, const void *buffer, size_t buflen, size_t *nscanned) {
  const u8 *p = buffer; size_t n = buflen, skip = 0, i; gcry_mpi_t a;
  if (fmt == FMT_PGP) {
    if (buflen < 2) return mk_err(GPG_ERR_INV_OBJ);
    n = ((((size_t)p[0]) << 8 | p[1]) + 7) / 8;
    if (n + 2 > buflen) return mk_err(GPG_ERR_TOO_SHORT);
    p += 2;
  } else if (fmt == FMT_HEX) {
    /* libgcrypt manual / mpicoder.c: NUL-terminated string (buflen must be 0), optional '-', optional "0x", hex digits of either
       case, an odd number of digits is fine; anything else is GPG_ERR_INV_OBJ */
    const char *h = buffer; int neg = 0; size_t nd = 0, j; u8 tmp[VF_MPI_BYTES]; size_t nb;
    if (buflen) return mk_err(GPG_ERR_INV_ARG);
    if (*h == '-') { neg = 1; ++h; }
    if (h[0] == '0' && h[1] == 'x') h += 2;
    while (h[nd]) { char c = h[nd]; if (!((c >= '0' && c <= '9') || (c >= 'a' && c <= 'f') || (c >= 'A' && c <= 'F'))) return mk_err(GPG_ERR_INV_OBJ); ++nd; if (nd > 2 * VF_MPI_BYTES + 2) MBOUND(); }
    while (nd > 0 && *h == '0') { ++h; --nd; }
    nb = (nd + 1) / 2; if (nb > VF_MPI_BYTES) MBOUND();
    for (j = 0; j < nb; ++j) tmp[j] = 0;
    for (j = 0; j < nd; ++j) { char c = h[j]; u8 d = (u8)(c <= '9' ? c - '0' : (c >= 'a' ? c - 'a' + 10 : c - 'A' + 10)); size_t bitpos = nd - 1 - j; tmp[nb - 1 - bitpos / 2] |= (u8)(d << (4 * (bitpos & 1))); }
    a = mpi_alloc(); a->nbytes = (u32)nb; a->neg = nb ? neg : 0;
    for (j = 0; j < nb; ++j) a->m[j] = tmp[j];
    if (nscanned) *nscanned = 0;
    if (ret) *ret = a; else free(a);
    return 0;
  } else if (fmt != FMT_USG) MUNSUP("gcry_mpi_scan format");
  while (skip < n && p[skip] == 0) ++skip;
  if (n - skip > VF_MPI_BYTES) MBOUND();
  a = mpi_alloc(); a->nbytes = (u32)(n - skip);
  for (i = 0; i < n - skip; ++i) a->m[i] = p[skip + i];
  if (nscanned) *nscanned = (fmt == FMT_PGP) ? n + 2 : n;
  if (ret) *ret = a; else free(a);
  return 0;
}
u32 gcry_mpi_print(int fmt, unsigned char *buffer, size_t buflen, size_t *nwritten, const gcry_mpi_t a) {
  size_t n = a->nbytes, i;
  if (fmt == FMT_HEX) {
    /* mpicoder.c: "-" if negative, "00" if the value is zero or its top bit is set, two upper-case digits per byte, NUL; nwritten counts the NUL */
    size_t extra = (!n || (a->m[0] & 0x80)) ? 2 : 0, len = 2 * n + extra + (a->neg ? 1 : 0) + 1; unsigned char *s_ = buffer;
    static const char hx[] = "0123456789ABCDEF";
    if (buffer) {
      if (len > buflen) return mk_err(GPG_ERR_TOO_SHORT);
      if (a->neg) *s_++ = '-';
      if (extra) { *s_++ = '0'; *s_++ = '0'; }
      for (i = 0; i < n; ++i) { *s_++ = (unsigned char)hx[a->m[i] >> 4]; *s_++ = (unsigned char)hx[a->m[i] & 15]; }
      *s_++ = 0;
    }
    if (nwritten) *nwritten = len;
    return 0;
  }
  if (a->neg) return mk_err(GPG_ERR_INV_ARG);
  if (fmt == FMT_PGP) {
    unsigned nbits = gcry_mpi_get_nbits(a);
    if (buffer && n + 2 > buflen) return mk_err(GPG_ERR_TOO_SHORT);
    if (buffer) { buffer[0] = (u8)(nbits >> 8); buffer[1] = (u8)nbits; for (i = 0; i < n; ++i) buffer[2 + i] = a->m[i]; }
    if (nwritten) *nwritten = n + 2;
    return 0;
  }
  if (fmt == FMT_USG) {
    if (buffer && n > buflen) return mk_err(GPG_ERR_TOO_SHORT);
    if (buffer) for (i = 0; i < n; ++i) buffer[i] = a->m[i];
    if (nwritten) *nwritten = n;
    return 0;
  }
  MUNSUP("gcry_mpi_print format");
  return mk_err(GPG_ERR_INV_ARG);
}
void *gcry_malloc(size_t n) { return malloc(n ? n : 1); }
void *gcry_malloc_secure(size_t n) { return malloc(n ? n : 1); }
void *gcry_calloc(size_t n, size_t m) { return calloc(n ? n : 1, m ? m : 1); }
void gcry_free(void *p) { free(p); }
/* random bytes: arbitrary, logged as symbolic inputs */
void gcry_randomize(void *buffer, size_t length, int level) { u8 *p = buffer; size_t i; (void)level; for (i = 0; i < length; ++i) p[i] = vf_nondet_u8(); }
void gcry_create_nonce(void *buffer, size_t length) { gcry_randomize(buffer, length, 0); }
const char *gcry_strerror(u32 e) { (void)e; return "gcry error"; }
