/* Substitute <gmp.h> for symbolic builds: same API names as GMP 6 (functions are __gmpz_*), but the integer
   is a bounded sign+magnitude value stored in-line, and the gmp.h macros/inlines (mpz_sgn, mpz_odd_p,
   mpz_cmp_ui, mpz_get_ui, ...) are ordinary functions of the model (models/gmp_model.c).
   Contract source: GMP 6.2 manual, "Integer Functions". */
#ifndef __GMP_H__
#define __GMP_H__
#include <stddef.h>
#include <stdio.h>
#ifdef __cplusplus
#include <iosfwd>
extern "C" {
#endif
#define __GNU_MP_VERSION 6
#define __GNU_MP_VERSION_MINOR 2
#define __GNU_MP_VERSION_PATCHLEVEL 1
typedef unsigned long mp_limb_t; typedef long mp_limb_signed_t; typedef long mp_size_t; typedef unsigned long mp_bitcnt_t; typedef long mp_exp_t;
typedef struct { int _mp_alloc; int _mp_size; /* sign: -1, 0, 1 */ unsigned long _vf_lo, _vf_hi; } __mpz_struct;
typedef __mpz_struct MP_INT;
typedef __mpz_struct mpz_t[1];
typedef __mpz_struct *mpz_ptr; typedef const __mpz_struct *mpz_srcptr;
typedef struct { int _vf_seed; } __gmp_randstate_struct; typedef __gmp_randstate_struct gmp_randstate_t[1];
extern const char *const __gmp_version;
#define gmp_version __gmp_version
extern const int __gmp_bits_per_limb;
#define mp_bits_per_limb __gmp_bits_per_limb
#define GMP_LIMB_BITS 64
#define GMP_NUMB_BITS 64
void __gmp_set_memory_functions(void *(*)(size_t), void *(*)(void *, size_t, size_t), void (*)(void *, size_t));
void __gmp_get_memory_functions(void *(**)(size_t), void *(**)(void *, size_t, size_t), void (**)(void *, size_t));
#define mp_set_memory_functions __gmp_set_memory_functions
#define mp_get_memory_functions __gmp_get_memory_functions
#define VFD(ret, name, args) ret __g##name args;
VFD(void, mpz_init, (mpz_ptr))
VFD(void, mpz_init2, (mpz_ptr, mp_bitcnt_t))
VFD(void, mpz_clear, (mpz_ptr))
VFD(void, mpz_realloc2, (mpz_ptr, mp_bitcnt_t))
VFD(void, mpz_set, (mpz_ptr, mpz_srcptr))
VFD(void, mpz_set_ui, (mpz_ptr, unsigned long))
VFD(void, mpz_set_si, (mpz_ptr, long))
VFD(int, mpz_set_str, (mpz_ptr, const char *, int))
VFD(void, mpz_swap, (mpz_ptr, mpz_ptr))
VFD(void, mpz_init_set, (mpz_ptr, mpz_srcptr))
VFD(void, mpz_init_set_ui, (mpz_ptr, unsigned long))
VFD(void, mpz_init_set_si, (mpz_ptr, long))
VFD(int, mpz_init_set_str, (mpz_ptr, const char *, int))
VFD(unsigned long, mpz_get_ui, (mpz_srcptr))
VFD(long, mpz_get_si, (mpz_srcptr))
VFD(char *, mpz_get_str, (char *, int, mpz_srcptr))
VFD(void, mpz_add, (mpz_ptr, mpz_srcptr, mpz_srcptr))
VFD(void, mpz_add_ui, (mpz_ptr, mpz_srcptr, unsigned long))
VFD(void, mpz_sub, (mpz_ptr, mpz_srcptr, mpz_srcptr))
VFD(void, mpz_sub_ui, (mpz_ptr, mpz_srcptr, unsigned long))
VFD(void, mpz_ui_sub, (mpz_ptr, unsigned long, mpz_srcptr))
VFD(void, mpz_mul, (mpz_ptr, mpz_srcptr, mpz_srcptr))
VFD(void, mpz_mul_ui, (mpz_ptr, mpz_srcptr, unsigned long))
VFD(void, mpz_mul_si, (mpz_ptr, mpz_srcptr, long))
VFD(void, mpz_addmul, (mpz_ptr, mpz_srcptr, mpz_srcptr))
VFD(void, mpz_submul, (mpz_ptr, mpz_srcptr, mpz_srcptr))
VFD(void, mpz_mul_2exp, (mpz_ptr, mpz_srcptr, mp_bitcnt_t))
VFD(void, mpz_neg, (mpz_ptr, mpz_srcptr))
VFD(void, mpz_abs, (mpz_ptr, mpz_srcptr))
VFD(void, mpz_mod, (mpz_ptr, mpz_srcptr, mpz_srcptr))
VFD(unsigned long, mpz_fdiv_r_ui, (mpz_ptr, mpz_srcptr, unsigned long))
VFD(unsigned long, mpz_fdiv_ui, (mpz_srcptr, unsigned long))
VFD(void, mpz_fdiv_q, (mpz_ptr, mpz_srcptr, mpz_srcptr))
VFD(void, mpz_fdiv_r, (mpz_ptr, mpz_srcptr, mpz_srcptr))
VFD(void, mpz_fdiv_qr, (mpz_ptr, mpz_ptr, mpz_srcptr, mpz_srcptr))
VFD(unsigned long, mpz_fdiv_q_ui, (mpz_ptr, mpz_srcptr, unsigned long))
VFD(void, mpz_fdiv_q_2exp, (mpz_ptr, mpz_srcptr, mp_bitcnt_t))
VFD(void, mpz_fdiv_r_2exp, (mpz_ptr, mpz_srcptr, mp_bitcnt_t))
VFD(void, mpz_tdiv_q, (mpz_ptr, mpz_srcptr, mpz_srcptr))
VFD(void, mpz_tdiv_r, (mpz_ptr, mpz_srcptr, mpz_srcptr))
VFD(void, mpz_tdiv_qr, (mpz_ptr, mpz_ptr, mpz_srcptr, mpz_srcptr))
VFD(unsigned long, mpz_tdiv_q_ui, (mpz_ptr, mpz_srcptr, unsigned long))
VFD(unsigned long, mpz_tdiv_ui, (mpz_srcptr, unsigned long))
VFD(void, mpz_tdiv_q_2exp, (mpz_ptr, mpz_srcptr, mp_bitcnt_t))
VFD(void, mpz_tdiv_r_2exp, (mpz_ptr, mpz_srcptr, mp_bitcnt_t))
VFD(void, mpz_cdiv_q, (mpz_ptr, mpz_srcptr, mpz_srcptr))
VFD(void, mpz_divexact, (mpz_ptr, mpz_srcptr, mpz_srcptr))
VFD(void, mpz_divexact_ui, (mpz_ptr, mpz_srcptr, unsigned long))
VFD(int, mpz_divisible_p, (mpz_srcptr, mpz_srcptr))
VFD(int, mpz_divisible_ui_p, (mpz_srcptr, unsigned long))
VFD(int, mpz_congruent_p, (mpz_srcptr, mpz_srcptr, mpz_srcptr))
VFD(int, mpz_congruent_ui_p, (mpz_srcptr, unsigned long, unsigned long))
VFD(void, mpz_powm, (mpz_ptr, mpz_srcptr, mpz_srcptr, mpz_srcptr))
VFD(void, mpz_powm_ui, (mpz_ptr, mpz_srcptr, unsigned long, mpz_srcptr))
VFD(void, mpz_powm_sec, (mpz_ptr, mpz_srcptr, mpz_srcptr, mpz_srcptr))
VFD(void, mpz_pow_ui, (mpz_ptr, mpz_srcptr, unsigned long))
VFD(void, mpz_ui_pow_ui, (mpz_ptr, unsigned long, unsigned long))
VFD(void, mpz_sqrt, (mpz_ptr, mpz_srcptr))
VFD(int, mpz_perfect_square_p, (mpz_srcptr))
VFD(int, mpz_probab_prime_p, (mpz_srcptr, int))
VFD(void, mpz_nextprime, (mpz_ptr, mpz_srcptr))
VFD(void, mpz_gcd, (mpz_ptr, mpz_srcptr, mpz_srcptr))
VFD(unsigned long, mpz_gcd_ui, (mpz_ptr, mpz_srcptr, unsigned long))
VFD(void, mpz_gcdext, (mpz_ptr, mpz_ptr, mpz_ptr, mpz_srcptr, mpz_srcptr))
VFD(void, mpz_lcm, (mpz_ptr, mpz_srcptr, mpz_srcptr))
VFD(int, mpz_invert, (mpz_ptr, mpz_srcptr, mpz_srcptr))
VFD(int, mpz_jacobi, (mpz_srcptr, mpz_srcptr))
VFD(int, mpz_cmp, (mpz_srcptr, mpz_srcptr))
VFD(int, mpz_cmpabs, (mpz_srcptr, mpz_srcptr))
VFD(int, mpz_cmpabs_ui, (mpz_srcptr, unsigned long))
VFD(int, mpz_vf_cmp_ui, (mpz_srcptr, unsigned long))
VFD(int, mpz_vf_cmp_si, (mpz_srcptr, long))
VFD(int, mpz_vf_sgn, (mpz_srcptr))
VFD(int, mpz_vf_odd_p, (mpz_srcptr))
VFD(size_t, mpz_sizeinbase, (mpz_srcptr, int))
VFD(size_t, mpz_size, (mpz_srcptr))
VFD(int, mpz_tstbit, (mpz_srcptr, mp_bitcnt_t))
VFD(void, mpz_setbit, (mpz_ptr, mp_bitcnt_t))
VFD(void, mpz_clrbit, (mpz_ptr, mp_bitcnt_t))
VFD(mp_bitcnt_t, mpz_scan0, (mpz_srcptr, mp_bitcnt_t))
VFD(mp_bitcnt_t, mpz_scan1, (mpz_srcptr, mp_bitcnt_t))
VFD(mp_bitcnt_t, mpz_popcount, (mpz_srcptr))
VFD(void, mpz_and, (mpz_ptr, mpz_srcptr, mpz_srcptr))
VFD(void, mpz_ior, (mpz_ptr, mpz_srcptr, mpz_srcptr))
VFD(void, mpz_xor, (mpz_ptr, mpz_srcptr, mpz_srcptr))
VFD(void, mpz_import, (mpz_ptr, size_t, int, size_t, int, size_t, const void *))
VFD(void *, mpz_export, (void *, size_t *, int, size_t, int, size_t, mpz_srcptr))
VFD(int, mpz_fits_ulong_p, (mpz_srcptr))
VFD(int, mpz_fits_slong_p, (mpz_srcptr))
VFD(int, mpz_fits_uint_p, (mpz_srcptr))
VFD(int, mpz_fits_sint_p, (mpz_srcptr))
#undef VFD
#define mpz_init __gmpz_init
#define mpz_init2 __gmpz_init2
#define mpz_clear __gmpz_clear
#define mpz_realloc2 __gmpz_realloc2
#define mpz_set __gmpz_set
#define mpz_set_ui __gmpz_set_ui
#define mpz_set_si __gmpz_set_si
#define mpz_set_str __gmpz_set_str
#define mpz_swap __gmpz_swap
#define mpz_init_set __gmpz_init_set
#define mpz_init_set_ui __gmpz_init_set_ui
#define mpz_init_set_si __gmpz_init_set_si
#define mpz_init_set_str __gmpz_init_set_str
#define mpz_get_ui __gmpz_get_ui
#define mpz_get_si __gmpz_get_si
#define mpz_get_str __gmpz_get_str
#define mpz_add __gmpz_add
#define mpz_add_ui __gmpz_add_ui
#define mpz_sub __gmpz_sub
#define mpz_sub_ui __gmpz_sub_ui
#define mpz_ui_sub __gmpz_ui_sub
#define mpz_mul __gmpz_mul
#define mpz_mul_ui __gmpz_mul_ui
#define mpz_mul_si __gmpz_mul_si
#define mpz_addmul __gmpz_addmul
#define mpz_submul __gmpz_submul
#define mpz_mul_2exp __gmpz_mul_2exp
#define mpz_neg __gmpz_neg
#define mpz_abs __gmpz_abs
#define mpz_mod __gmpz_mod
#define mpz_mod_ui __gmpz_fdiv_r_ui
#define mpz_fdiv_r_ui __gmpz_fdiv_r_ui
#define mpz_fdiv_ui __gmpz_fdiv_ui
#define mpz_fdiv_q __gmpz_fdiv_q
#define mpz_div __gmpz_fdiv_q
#define mpz_fdiv_r __gmpz_fdiv_r
#define mpz_fdiv_qr __gmpz_fdiv_qr
#define mpz_fdiv_q_ui __gmpz_fdiv_q_ui
#define mpz_div_ui __gmpz_fdiv_q_ui
#define mpz_fdiv_q_2exp __gmpz_fdiv_q_2exp
#define mpz_div_2exp __gmpz_fdiv_q_2exp
#define mpz_fdiv_r_2exp __gmpz_fdiv_r_2exp
#define mpz_mod_2exp __gmpz_fdiv_r_2exp
#define mpz_tdiv_q __gmpz_tdiv_q
#define mpz_tdiv_r __gmpz_tdiv_r
#define mpz_tdiv_qr __gmpz_tdiv_qr
#define mpz_tdiv_q_ui __gmpz_tdiv_q_ui
#define mpz_tdiv_ui __gmpz_tdiv_ui
#define mpz_tdiv_q_2exp __gmpz_tdiv_q_2exp
#define mpz_tdiv_r_2exp __gmpz_tdiv_r_2exp
#define mpz_cdiv_q __gmpz_cdiv_q
#define mpz_divexact __gmpz_divexact
#define mpz_divexact_ui __gmpz_divexact_ui
#define mpz_divisible_p __gmpz_divisible_p
#define mpz_divisible_ui_p __gmpz_divisible_ui_p
#define mpz_congruent_p __gmpz_congruent_p
#define mpz_congruent_ui_p __gmpz_congruent_ui_p
#define mpz_powm __gmpz_powm
#define mpz_powm_ui __gmpz_powm_ui
#define mpz_powm_sec __gmpz_powm_sec
#define mpz_pow_ui __gmpz_pow_ui
#define mpz_ui_pow_ui __gmpz_ui_pow_ui
#define mpz_sqrt __gmpz_sqrt
#define mpz_perfect_square_p __gmpz_perfect_square_p
#define mpz_probab_prime_p __gmpz_probab_prime_p
#define mpz_nextprime __gmpz_nextprime
#define mpz_gcd __gmpz_gcd
#define mpz_gcd_ui __gmpz_gcd_ui
#define mpz_gcdext __gmpz_gcdext
#define mpz_lcm __gmpz_lcm
#define mpz_invert __gmpz_invert
#define mpz_jacobi __gmpz_jacobi
#define mpz_legendre __gmpz_jacobi
#define mpz_kronecker __gmpz_jacobi
#define mpz_cmp __gmpz_cmp
#define mpz_cmpabs __gmpz_cmpabs
#define mpz_cmpabs_ui __gmpz_cmpabs_ui
#define mpz_cmp_ui __gmpz_vf_cmp_ui
#define mpz_cmp_si __gmpz_vf_cmp_si
#define mpz_sgn __gmpz_vf_sgn
#define mpz_odd_p __gmpz_vf_odd_p
#define mpz_even_p(z) (!__gmpz_vf_odd_p(z))
#define mpz_sizeinbase __gmpz_sizeinbase
#define mpz_size __gmpz_size
#define mpz_tstbit __gmpz_tstbit
#define mpz_setbit __gmpz_setbit
#define mpz_clrbit __gmpz_clrbit
#define mpz_scan0 __gmpz_scan0
#define mpz_scan1 __gmpz_scan1
#define mpz_popcount __gmpz_popcount
#define mpz_and __gmpz_and
#define mpz_ior __gmpz_ior
#define mpz_xor __gmpz_xor
#define mpz_import __gmpz_import
#define mpz_export __gmpz_export
#define mpz_fits_ulong_p __gmpz_fits_ulong_p
#define mpz_fits_slong_p __gmpz_fits_slong_p
#define mpz_fits_uint_p __gmpz_fits_uint_p
#define mpz_fits_sint_p __gmpz_fits_sint_p
#ifdef __cplusplus
}
/* declared by the real gmp.h as well (defined by libgmpxx there, by libtmcg's mpz_helper.cc here) */
std::ostream& operator<<(std::ostream&, mpz_srcptr);
std::istream& operator>>(std::istream&, mpz_ptr);
#endif
#endif
