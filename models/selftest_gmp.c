/* selftest_gmp.c - run by `vf setup` under CBMC: the CPROVER code paths of gmp_model.c (exact-width arithmetic,
   certificate-based invert/gcd) against plain C arithmetic for all inputs below 16. Every assertion must hold. */
#include "include/gmp.h"
unsigned nondet_u(void); int nondet_i(void);
void vf_abort(const char *w) { (void)w; __CPROVER_assert(0, "model abort reached in selftest"); __CPROVER_assume(0); }
static unsigned long refpow(unsigned long b, unsigned long e, unsigned long m) { unsigned long r = 1 % m; b %= m; for (int i = 0; i < 8; ++i) { if (e & 1) r = (r * b) % m; e >>= 1; b = (b * b) % m; } return r; }
static unsigned refgcd(unsigned a, unsigned b) { for (int i = 0; i < 12 && b; ++i) { unsigned t = a % b; a = b; b = t; } return a; }
int main() {
  unsigned b = nondet_u() % 16, e = nondet_u() % 16, m = 1 + nondet_u() % 15; int s = nondet_i() % 16;
  mpz_t B, E, M, R, S; mpz_init(B); mpz_init(E); mpz_init(M); mpz_init(R); mpz_init(S);
  mpz_set_ui(B, b); mpz_set_ui(E, e); mpz_set_ui(M, m); mpz_set_si(S, s);
  mpz_powm(R, B, E, M);
  __CPROVER_assert(mpz_get_ui(R) == refpow(b, e, m), "powm");
  mpz_mod(R, S, M);
  __CPROVER_assert((long)mpz_get_ui(R) == ((s % (int)m) + (int)m) % (int)m, "mod of a signed value");
  mpz_mul(R, B, E); mpz_neg(R, R); mpz_add(R, R, S);
  __CPROVER_assert(mpz_sgn(R) * (long)mpz_get_ui(R) == (long)s - (long)(b * e), "mul, neg, add");
  __CPROVER_assert(mpz_sizeinbase(B, 2) == (b < 2 ? 1 : b < 4 ? 2 : b < 8 ? 3 : 4), "sizeinbase 2");
  __CPROVER_assert(mpz_tstbit(B, 2) == ((b >> 2) & 1), "tstbit");
  { int ok = mpz_invert(R, B, M);
    if (m > 1) { int ex = 0; unsigned inv = 0; for (unsigned y = 1; y < m; ++y) if ((b * y) % m == 1) { ex = 1; inv = y; }
      __CPROVER_assert((ok != 0) == ex, "invert: existence"); if (ok) __CPROVER_assert(mpz_get_ui(R) == inv, "invert: value"); } }
  mpz_gcd(R, B, M);
  __CPROVER_assert(mpz_get_ui(R) == refgcd(b, m), "gcd");
  __CPROVER_assert(mpz_cmp(B, E) == (b < e ? -1 : b > e ? 1 : 0), "cmp");
  __CPROVER_assert(mpz_cmpabs(S, B) == ((unsigned)(s < 0 ? -s : s) < b ? -1 : (unsigned)(s < 0 ? -s : s) > b ? 1 : 0), "cmpabs");
  mpz_fdiv_q_2exp(R, B, 1); __CPROVER_assert(mpz_get_ui(R) == b / 2, "fdiv_q_2exp");
  mpz_tdiv_r_2exp(R, B, 2); __CPROVER_assert(mpz_get_ui(R) == (b & 3), "tdiv_r_2exp");
  __CPROVER_assert(mpz_probab_prime_p(M, 10) == ((m == 2 || m == 3 || m == 5 || m == 7 || m == 11 || m == 13) ? 2 : 0), "primality is exact");
  if (m & 1) { int j = mpz_jacobi(B, M); int ref = 0; if (m == 3 || m == 5 || m == 7 || m == 11 || m == 13) { ref = (b % m == 0) ? 0 : -1; for (unsigned y = 1; y < m; ++y) if ((y * y) % m == b % m) ref = 1; __CPROVER_assert(j == ref, "jacobi == Legendre symbol for prime moduli"); } }
  return 0;
}
