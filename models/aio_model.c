/* aio_model.c - environment of the point-to-point channels (aiounicast_select / aiounicast_nonblock), property C13.
   Contract sources: POSIX read(2)/write(2)/select(2)/fcntl(2); libgcrypt 1.10 manual "MAC functions", "Working with cipher
   handles", "Key Derivation", "Retrieving random numbers".

   WIRE.  File descriptor k (0 <= k < VF_AIO_NPIPE) is one unidirectional byte queue ("pipe k"): write(k) appends, read(k)
   consumes from the front. The harness owns the queue (vf_aio_data/vf_aio_w/vf_aio_r) and may inspect or edit the bytes in
   flight (the adversary on the wire). The transport may
     - deliver fewer bytes than asked for: read() returns an arbitrary count in 1..min(len, pending) while vf_aio_read_frag > 0
       (every short read uses up one unit of that budget; afterwards read() returns everything that is pending and fits),
     - accept fewer bytes than offered: write() takes an arbitrary count in 1..len while vf_aio_write_frag > 0,
     - refuse a write for now: write() == -1 / EAGAIN while vf_aio_eagain > 0,
     - be late: select() reports "no descriptor ready" (returns 0) while vf_aio_delay > 0 although data is pending.
   select() reports a descriptor readable iff bytes are pending or the pipe was closed (vf_aio_eof), writable always.
   read() on an empty open pipe is -1 / EAGAIN (O_NONBLOCK), on an empty closed pipe 0 (EOF).
   Every choice is drawn with vf_nondet_* (logged, replayable).

   MAC (ideal MAC).  tag(key, message) is a memoised arbitrary value of VF_AIO_MACLEN bytes; distinct (key, message) pairs get
   distinct tags (collision-free on the calls made); gcry_mac_verify succeeds iff that exact (key, message) was tagged before by
   gcry_mac_read AND the presented bytes equal its tag (unforgeability: a message never tagged is refused, i.e. the probability
   2^-(8*VF_AIO_MACLEN) of guessing is ignored).
   KDF.  gcry_kdf_derive is an injective memoised function of (passphrase, first salt byte, salt length): equal inputs give equal
   keys, different inputs different keys.
   CIPHER (ideal stream cipher).  Every mode is treated as a synchronous stream cipher: byte i after setiv/setctr is XORed with
   keystream(key, iv, i), a memoised arbitrary byte string (VF_AIO_KSMAX bytes per (key, iv) pair); decryption is the same XOR.
   CFB error propagation is therefore NOT modelled (it only matters for modified ciphertext, which the MAC layer refuses first).
   NONCE.  gcry_create_nonce returns arbitrary logged bytes.
   Sizes (stated bounds): maclen VF_AIO_MACLEN (2), keylen VF_AIO_KEYLEN (2), blklen VF_AIO_BLKLEN (2). */
#include <stddef.h>
#include <string.h>
#include <stdlib.h>
#include "vf.h"
typedef unsigned char u8; typedef unsigned int u32;
#ifdef __CPROVER__
#define ABOUND(m) do { __CPROVER_assert(0, "MODEL-BOUND aio: " m); __CPROVER_assume(0); } while (0)
#define AUNSUP(m) do { __CPROVER_assert(0, "MODEL-UNSUPPORTED aio: " m); __CPROVER_assume(0); } while (0)
#else
#include <stdio.h>
#define ABOUND(m) do { printf("VF_MODEL_BOUND %s\n", m); fflush(stdout); exit(72); } while (0)
#define AUNSUP(m) do { printf("VF_MODEL_UNSUPPORTED %s\n", m); fflush(stdout); exit(73); } while (0)
#endif
#ifndef VF_AIO_NPIPE
#define VF_AIO_NPIPE 4
#endif
#ifndef VF_AIO_CAP
#define VF_AIO_CAP 40
#endif
#ifndef VF_AIO_MACLEN
#define VF_AIO_MACLEN 2
#endif
#ifndef VF_AIO_KEYLEN
#define VF_AIO_KEYLEN 2
#endif
#ifndef VF_AIO_BLKLEN
#define VF_AIO_BLKLEN 2
#endif
#ifndef VF_AIO_MACMSG
#define VF_AIO_MACMSG 16
#endif
#ifndef VF_AIO_MACTAB
#define VF_AIO_MACTAB 4
#endif
#ifndef VF_AIO_KSMAX
#define VF_AIO_KSMAX 8
#endif
#ifndef VF_AIO_NSTREAM
#define VF_AIO_NSTREAM 3
#endif
#define A_EAGAIN 11
#define A_EBADF 9

/* ------------------------------------------------------------------ errno, perror, small libc pieces */
static int aio_errno;
int *__errno_location(void) { return &aio_errno; }
void perror(const char *s) { (void)s; }
size_t strnlen(const char *s, size_t n) { size_t i = 0; while (i < n && s[i] != 0) ++i; return i; }
unsigned int sleep(unsigned int s) { (void)s; return 0; }
/* both ends are assumed to be constructed in the same UTC month (the chunked mode derives its nonce from year and month) */
struct aio_tm { int tm_sec, tm_min, tm_hour, tm_mday, tm_mon, tm_year, tm_wday, tm_yday, tm_isdst; long tm_gmtoff; const char *tm_zone; };
struct aio_tm *gmtime_r(const long *t, struct aio_tm *r) { (void)t; memset(r, 0, sizeof(*r)); r->tm_year = 126; r->tm_mon = 8; r->tm_mday = 1; return r; }
#ifdef VF_AIO_STEP_CLOCK
/* concrete clock (used instead of libc_model.c's arbitrary clock when loop bounds must stay concrete): one tick per call */
static long aio_now = 1000;
long time(long *t) { long v = aio_now; aio_now += 1; if (t) *t = v; return v; }
#endif

/* ------------------------------------------------------------------ the wire */
u8 vf_aio_data[VF_AIO_NPIPE * VF_AIO_CAP];       /* pipe k occupies [k*CAP, (k+1)*CAP) */
u32 vf_aio_w[VF_AIO_NPIPE], vf_aio_r[VF_AIO_NPIPE];
u32 vf_aio_eof[VF_AIO_NPIPE];
u32 vf_aio_read_frag, vf_aio_write_frag, vf_aio_eagain, vf_aio_delay;     /* budgets, set by the harness */
u32 vf_aio_nread, vf_aio_nwrite, vf_aio_nselect;                          /* call counters */
u32 vf_aio_lastread;                                                      /* byte count of the last successful read() */
u32 vf_aio_plan[4], vf_aio_plan_n, vf_aio_plan_i;   /* scripted fragmentation: the k-th successful read() delivers at most vf_aio_plan[k] bytes (0 = everything pending) */

long read(int fd, void *buf, size_t len) {
  u8 *d = buf; u32 avail, max, cnt, i, base;
  if (fd < 0 || fd >= VF_AIO_NPIPE) { aio_errno = A_EBADF; return -1; }
  ++vf_aio_nread;
  avail = vf_aio_w[fd] - vf_aio_r[fd];
  if (avail == 0) { if (vf_aio_eof[fd]) return 0; aio_errno = A_EAGAIN; return -1; }
  if (len == 0) return 0;
  max = len < avail ? (u32)len : avail;
  cnt = max;
  if (vf_aio_plan_i < vf_aio_plan_n && vf_aio_plan_i < 4) { u32 p = vf_aio_plan[vf_aio_plan_i]; ++vf_aio_plan_i; if (p != 0 && p < cnt) cnt = p; }
  else if (vf_aio_read_frag > 0 && max > 1) { cnt = 1 + (u32)vf_nondet_below(max); if (cnt < max) --vf_aio_read_frag; }
  base = (u32)fd * VF_AIO_CAP + vf_aio_r[fd];
  for (i = 0; i < cnt; ++i) d[i] = vf_aio_data[base + i];
  vf_aio_r[fd] += cnt; vf_aio_lastread = cnt;
  return (long)cnt;
}
long write(int fd, const void *buf, size_t len) {
  const u8 *s = buf; u32 cnt, i, base;
  if (fd < 0 || fd >= VF_AIO_NPIPE) { aio_errno = A_EBADF; return -1; }
  ++vf_aio_nwrite;
  if (len == 0) return 0;
  if (vf_aio_eagain > 0 && (vf_nondet_u8() & 1)) { --vf_aio_eagain; aio_errno = A_EAGAIN; return -1; }
  cnt = (u32)len;
  if (vf_aio_write_frag > 0 && len > 1) { cnt = 1 + (u32)vf_nondet_below(len); if (cnt < len) --vf_aio_write_frag; }
  if (vf_aio_w[fd] + cnt > VF_AIO_CAP) ABOUND("wire capacity VF_AIO_CAP exceeded");
  base = (u32)fd * VF_AIO_CAP + vf_aio_w[fd];
  for (i = 0; i < cnt; ++i) vf_aio_data[base + i] = s[i];
  vf_aio_w[fd] += cnt;
  return (long)cnt;
}
/* fd_set = 1024 bits in unsigned long words (glibc); only descriptors below VF_AIO_NPIPE (<= 64) are pipes */
struct aio_timeval { long tv_sec, tv_usec; };
int select(int nfds, unsigned long *rd, unsigned long *wr, unsigned long *ex, struct aio_timeval *tv) {
  int k, n = 0; int late = 0;
  (void)tv; ++vf_aio_nselect;
  if (ex) ex[0] = 0;
  if (vf_aio_delay > 0 && (vf_nondet_u8() & 1)) { --vf_aio_delay; late = 1; }
  for (k = 0; k < VF_AIO_NPIPE; ++k) {
    unsigned long bit = 1UL << k;
    if (rd && (rd[0] & bit)) { if (!late && k < nfds && (vf_aio_w[k] != vf_aio_r[k] || vf_aio_eof[k])) ++n; else rd[0] &= ~bit; }
    if (wr && (wr[0] & bit)) { if (!late && k < nfds) ++n; else wr[0] &= ~bit; }
  }
  return n;
}
#define A_O_NONBLOCK 04000
int fcntl(int fd, int cmd, ...) { (void)cmd; if (fd < 0 || fd >= VF_AIO_NPIPE) { aio_errno = A_EBADF; return -1; } return A_O_NONBLOCK | 2; }

/* ------------------------------------------------------------------ libgcrypt: errors, nonce */
#define A_ERR(code) ((1u << 24) | (code))       /* GPG_ERR_SOURCE_GCRYPT */
#define A_GPG_ERR_CHECKSUM 10
#define A_GPG_ERR_INV_ARG 45
#define A_GPG_ERR_INV_LENGTH 139
#define A_GPG_ERR_TOO_SHORT 66
const char *gcry_strerror(u32 e) { (void)e; return "gcry error"; }
#ifdef VF_AIO_NONCE_CONCRETE
static u32 aio_nonce_ctr;   /* fixed, pairwise different nonces (an instance of "unpredictable IV"): keeps the wire bytes concrete */
void gcry_create_nonce(void *buffer, size_t length) { u8 *p = buffer; size_t i; ++aio_nonce_ctr; for (i = 0; i < length; ++i) p[i] = (u8)(0xa1 + 0x11 * i + 0x23 * aio_nonce_ctr); }
#else
void gcry_create_nonce(void *buffer, size_t length) { u8 *p = buffer; size_t i; for (i = 0; i < length; ++i) p[i] = vf_nondet_u8(); }
#endif

/* ------------------------------------------------------------------ KDF: injective memoised function of (passphrase, salt[0], saltlen) */
#define A_KDFTAB 8
#define A_KDFPASS 12
static u32 kd_n; static u32 kd_plen[A_KDFTAB]; static u8 kd_pass[A_KDFTAB * A_KDFPASS]; static u8 kd_salt[A_KDFTAB]; static u32 kd_slen[A_KDFTAB];
u32 gcry_kdf_derive(const void *pass, size_t plen, int algo, int subalgo, const void *salt, size_t saltlen, unsigned long iter, size_t keysize, void *keybuf) {
  const u8 *p = pass; const u8 *s = salt; u8 *k = keybuf; u32 e, i, id = A_KDFTAB; u8 s0;
  (void)algo; (void)subalgo; (void)iter;
  if (keysize == 0 || saltlen == 0) return A_ERR(A_GPG_ERR_INV_ARG);
  if (plen > A_KDFPASS) ABOUND("passphrase longer than A_KDFPASS");
  s0 = s[0];
  for (e = 0; e < A_KDFTAB; ++e) {
    int same = 1;
    if (e >= kd_n) break;
    if (kd_plen[e] != plen || kd_salt[e] != s0 || kd_slen[e] != saltlen) continue;
    for (i = 0; i < plen; ++i) if (kd_pass[e * A_KDFPASS + i] != p[i]) same = 0;
    if (same) { id = e; break; }
  }
  if (id == A_KDFTAB) {
    if (kd_n >= A_KDFTAB) ABOUND("more than A_KDFTAB derived keys");
    id = kd_n; kd_plen[id] = (u32)plen; kd_salt[id] = s0; kd_slen[id] = (u32)saltlen;
    for (i = 0; i < plen; ++i) kd_pass[id * A_KDFPASS + i] = p[i];
    kd_n = id + 1;
  }
  k[0] = (u8)(id + 1); for (i = 1; i < keysize; ++i) k[i] = (u8)(0x5a + i);
  return 0;
}

/* ------------------------------------------------------------------ MAC */
struct gcry_mac_handle { int key; u32 len; u8 buf[VF_AIO_MACMSG]; };
typedef struct gcry_mac_handle *gcry_mac_hd_t;
/* memo table: flat arrays (CBMC 6.11 mis-handles stores into arrays of structs with inner arrays at a non-literal index) */
u32 vf_aio_mac_n; u32 vf_aio_mac_key[VF_AIO_MACTAB]; u32 vf_aio_mac_len[VF_AIO_MACTAB];
u8 vf_aio_mac_msg[VF_AIO_MACTAB * VF_AIO_MACMSG]; u8 vf_aio_mac_tag[VF_AIO_MACTAB * VF_AIO_MACLEN];
u32 vf_aio_mac_nverify, vf_aio_mac_nverify_ok;
unsigned int gcry_mac_get_algo_maclen(int algo) { (void)algo; return VF_AIO_MACLEN; }
u32 gcry_mac_open(gcry_mac_hd_t *h, int algo, unsigned flags, void *ctx) {
  gcry_mac_hd_t m = malloc(sizeof(struct gcry_mac_handle));
  (void)algo; (void)flags; (void)ctx; m->key = 0; m->len = 0; memset(m->buf, 0, VF_AIO_MACMSG); *h = m; return 0;
}
void gcry_mac_close(gcry_mac_hd_t h) { if (h) free(h); }
u32 gcry_mac_setkey(gcry_mac_hd_t h, const void *key, size_t keylen) { if (keylen == 0) return A_ERR(A_GPG_ERR_INV_ARG); h->key = ((const u8 *)key)[0]; h->len = 0; return 0; }
u32 gcry_mac_ctl(gcry_mac_hd_t h, int cmd, void *buffer, size_t buflen) { (void)buffer; (void)buflen; if (cmd != 4 /* GCRYCTL_RESET */) AUNSUP("gcry_mac_ctl command"); h->len = 0; return 0; }
u32 gcry_mac_write(gcry_mac_hd_t h, const void *buffer, size_t length) {
  const u8 *p = buffer; size_t i;
  if (h->len + length > VF_AIO_MACMSG) ABOUND("MAC input longer than VF_AIO_MACMSG");
  for (i = 0; i < length; ++i) h->buf[h->len + i] = p[i];
  h->len += (u32)length; return 0;
}
static u32 mac_lookup(gcry_mac_hd_t h) {
  u32 e, i;
  for (e = 0; e < VF_AIO_MACTAB; ++e) {
    int same = 1;
    if (e >= vf_aio_mac_n) break;
    if (vf_aio_mac_key[e] != h->key || vf_aio_mac_len[e] != h->len) continue;
    for (i = 0; i < VF_AIO_MACMSG; ++i) if (i < h->len && vf_aio_mac_msg[e * VF_AIO_MACMSG + i] != h->buf[i]) same = 0;
    if (same) return e;
  }
  return VF_AIO_MACTAB;
}
u32 gcry_mac_read(gcry_mac_hd_t h, void *buffer, size_t *buflen) {
  u8 *out = buffer; u32 e = mac_lookup(h), i, o;
  if (e == VF_AIO_MACTAB) {
    u8 t[VF_AIO_MACLEN];
    if (vf_aio_mac_n >= VF_AIO_MACTAB) ABOUND("more than VF_AIO_MACTAB tagged messages");
    e = vf_aio_mac_n;
#ifdef VF_AIO_TAG_CONCRETE
    for (i = 0; i < VF_AIO_MACLEN; ++i) t[i] = (u8)(0xc0 + 0x10 * i + e);   /* one fixed injective tag assignment (an instance of the ideal MAC; no tag byte equals a newline) */
#else
    for (i = 0; i < VF_AIO_MACLEN; ++i) t[i] = vf_nondet_u8();
#endif
    for (o = 0; o < VF_AIO_MACTAB; ++o) {        /* collision-free: the new tag differs from every tag handed out before */
      int eq = 1;
      if (o >= e) break;
      for (i = 0; i < VF_AIO_MACLEN; ++i) if (vf_aio_mac_tag[o * VF_AIO_MACLEN + i] != t[i]) eq = 0;
      vf_assume(!eq);
    }
    vf_aio_mac_key[e] = h->key; vf_aio_mac_len[e] = h->len;
    for (i = 0; i < VF_AIO_MACMSG; ++i) vf_aio_mac_msg[e * VF_AIO_MACMSG + i] = i < h->len ? h->buf[i] : 0;
    for (i = 0; i < VF_AIO_MACLEN; ++i) vf_aio_mac_tag[e * VF_AIO_MACLEN + i] = t[i];
    vf_aio_mac_n = e + 1;
  }
  if (*buflen < VF_AIO_MACLEN) return A_ERR(A_GPG_ERR_TOO_SHORT);
  for (i = 0; i < VF_AIO_MACLEN; ++i) out[i] = vf_aio_mac_tag[e * VF_AIO_MACLEN + i];
  *buflen = VF_AIO_MACLEN; return 0;
}
u32 gcry_mac_verify(gcry_mac_hd_t h, const void *buffer, size_t buflen) {
  const u8 *p = buffer; u32 e, i; int ok = 1;
  ++vf_aio_mac_nverify;
  if (buflen == 0 || buflen > VF_AIO_MACLEN) return A_ERR(A_GPG_ERR_INV_LENGTH);
  e = mac_lookup(h);
  if (e == VF_AIO_MACTAB) return A_ERR(A_GPG_ERR_CHECKSUM);          /* never tagged under this key: refused (unforgeability) */
  for (i = 0; i < VF_AIO_MACLEN; ++i) if (i < buflen && vf_aio_mac_tag[e * VF_AIO_MACLEN + i] != p[i]) ok = 0;
  if (!ok) return A_ERR(A_GPG_ERR_CHECKSUM);
  ++vf_aio_mac_nverify_ok; return 0;
}

/* ------------------------------------------------------------------ cipher */
struct gcry_cipher_handle { int key; int mode; int stream; u32 pos; };
typedef struct gcry_cipher_handle *gcry_cipher_hd_t;
/* keystream memo: stream s = (key, iv); bytes [s*KSMAX, (s+1)*KSMAX) */
u32 vf_aio_ks_n; u32 vf_aio_ks_key[VF_AIO_NSTREAM]; u8 vf_aio_ks_iv[VF_AIO_NSTREAM * VF_AIO_BLKLEN]; u8 vf_aio_ks[VF_AIO_NSTREAM * VF_AIO_KSMAX];
u32 vf_aio_ks_used[VF_AIO_NSTREAM];      /* high-water mark of keystream positions used for ENCRYPTION per stream */
u32 vf_aio_ks_reuse;                     /* number of encrypt calls that started below that mark (keystream reuse) */
u32 vf_aio_nsetiv;
size_t gcry_cipher_get_algo_keylen(int algo) { (void)algo; return VF_AIO_KEYLEN; }
size_t gcry_cipher_get_algo_blklen(int algo) { (void)algo; return VF_AIO_BLKLEN; }
u32 gcry_cipher_open(gcry_cipher_hd_t *h, int algo, int mode, unsigned flags) {
  gcry_cipher_hd_t c = malloc(sizeof(struct gcry_cipher_handle));
  (void)algo; (void)flags; c->key = 0; c->mode = mode; c->stream = -1; c->pos = 0; *h = c; return 0;
}
void gcry_cipher_close(gcry_cipher_hd_t h) { if (h) free(h); }
u32 gcry_cipher_setkey(gcry_cipher_hd_t h, const void *key, size_t keylen) { if (keylen != VF_AIO_KEYLEN) return A_ERR(A_GPG_ERR_INV_LENGTH); h->key = ((const u8 *)key)[0]; h->stream = -1; h->pos = 0; return 0; }
static u32 set_stream(gcry_cipher_hd_t h, const u8 *iv, size_t ivlen) {
  u32 e, i; u8 v[VF_AIO_BLKLEN];
  ++vf_aio_nsetiv;
  if (ivlen > VF_AIO_BLKLEN) return A_ERR(A_GPG_ERR_INV_LENGTH);
  for (i = 0; i < VF_AIO_BLKLEN; ++i) v[i] = (iv && i < ivlen) ? iv[i] : 0;
  for (e = 0; e < VF_AIO_NSTREAM; ++e) {
    int same = 1;
    if (e >= vf_aio_ks_n) break;
    if (vf_aio_ks_key[e] != h->key) continue;
    for (i = 0; i < VF_AIO_BLKLEN; ++i) if (vf_aio_ks_iv[e * VF_AIO_BLKLEN + i] != v[i]) same = 0;
    if (same) { h->stream = (int)e; h->pos = 0; return 0; }
  }
  if (vf_aio_ks_n >= VF_AIO_NSTREAM) ABOUND("more than VF_AIO_NSTREAM (key, iv) pairs");
  e = vf_aio_ks_n; vf_aio_ks_key[e] = h->key;
  for (i = 0; i < VF_AIO_BLKLEN; ++i) vf_aio_ks_iv[e * VF_AIO_BLKLEN + i] = v[i];
  for (i = 0; i < VF_AIO_KSMAX; ++i) vf_aio_ks[e * VF_AIO_KSMAX + i] =
#ifdef VF_AIO_KS_CONCRETE
    (u8)(0x35 + 0x4b * i + 0x1d * e);        /* one fixed keystream per stream (an instance of the ideal cipher): keeps the wire text concrete */
#else
    vf_nondet_u8();
#endif
  vf_aio_ks_n = e + 1; h->stream = (int)e; h->pos = 0; return 0;
}
u32 gcry_cipher_setiv(gcry_cipher_hd_t h, const void *iv, size_t ivlen) { return set_stream(h, iv, ivlen); }
u32 gcry_cipher_setctr(gcry_cipher_hd_t h, const void *ctr, size_t ctrlen) { return set_stream(h, ctr, ctrlen); }
static u32 crypt(gcry_cipher_hd_t h, u8 *buf, size_t len, int enc) {
  size_t i;
  if (h->stream < 0) { u32 r = set_stream(h, 0, 0); if (r) return r; --vf_aio_nsetiv; }      /* libgcrypt: all-zero IV when none was set */
  if (h->pos + len > VF_AIO_KSMAX) ABOUND("more than VF_AIO_KSMAX bytes under one (key, iv)");
  if (enc) { if (h->pos < vf_aio_ks_used[h->stream]) ++vf_aio_ks_reuse; if (h->pos + len > vf_aio_ks_used[h->stream]) vf_aio_ks_used[h->stream] = h->pos + (u32)len; }
  for (i = 0; i < len; ++i) buf[i] ^= vf_aio_ks[(u32)h->stream * VF_AIO_KSMAX + h->pos + i];
  h->pos += (u32)len; return 0;
}
u32 gcry_cipher_encrypt(gcry_cipher_hd_t h, void *out, size_t outsize, const void *in, size_t inlen) { if (in != 0 || inlen != 0) AUNSUP("gcry_cipher_encrypt: only in-place"); return crypt(h, out, outsize, 1); }
u32 gcry_cipher_decrypt(gcry_cipher_hd_t h, void *out, size_t outsize, const void *in, size_t inlen) { if (in != 0 || inlen != 0) AUNSUP("gcry_cipher_decrypt: only in-place"); return crypt(h, out, outsize, 0); }
