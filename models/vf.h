/* vf.h - interface between harnesses (C++), generated C and the runtime/models */
#ifndef VF_H
#define VF_H
#ifdef __cplusplus
extern "C" {
#endif
#include <stdint.h>
#include <stddef.h>
/* symbolic inputs (logged in call order; the log is what a replay file contains) */
uint8_t  vf_nondet_u8(void);
uint16_t vf_nondet_u16(void);
uint32_t vf_nondet_u32(void);
uint64_t vf_nondet_u64(void);
/* value in [0, n) ; n > 0 */
uint64_t vf_nondet_below(uint64_t n);
void vf_assume(int c);
/* translated by ir2c into an in-line __CPROVER_assert so that every call site is its own property */
void vf_assert(int c, const char *label);
/* reachability witness: in a -DVF_WITNESS build this is assert(0), otherwise nothing */
void vf_witness(const char *label);
/* 1 if an exception is propagating out of the last call made through vf_try (harness helper) */
int vf_uncaught(void);
void vf_clear_uncaught(void);
/* kind of the pending exception: 0 none, 1 std::exception family, 2 bool, 3 other */
int vf_uncaught_kind(void);
/* models report library-level process death through this (GMP division by zero, abort(), assert failure) */
void vf_abort(const char *why);
/* note an observation (printed in native runs, compared between encodings) */
void vf_observe(const char *label, uint64_t v);
#ifdef __cplusplus
}
#endif
#endif
