// out-of-line parts of ministl; compiled into every harness
#include <new>
#include <exception>
#include <stdexcept>
#include <typeinfo>
#include <string>
#include <iostream>
#include <sstream>
#ifdef MINISTL_NATIVE
extern "C" void __vf_model_bound(void) {}
extern "C" void __vf_check_readable(const void*, size_t) {}
#endif
namespace std {
#ifndef MINISTL_NATIVE
  const nothrow_t nothrow = nothrow_t();
  exception::~exception() noexcept {}
  const char* exception::what() const noexcept { return "std::exception"; }
#endif
  logic_error::logic_error(const string&) : m_("logic_error") {}
  logic_error::~logic_error() noexcept {}
  const char* logic_error::what() const noexcept { return m_; }
  runtime_error::runtime_error(const string&) : m_("runtime_error") {}
  runtime_error::~runtime_error() noexcept {}
  const char* runtime_error::what() const noexcept { return m_; }
  invalid_argument::~invalid_argument() noexcept {}
  domain_error::~domain_error() noexcept {}
  length_error::~length_error() noexcept {}
  out_of_range::~out_of_range() noexcept {}
  range_error::~range_error() noexcept {}
  overflow_error::~overflow_error() noexcept {}
  underflow_error::~underflow_error() noexcept {}
  void __throw_out_of_range(const char* m) { throw out_of_range(m); }
  void __throw_length_error(const char* m) { throw length_error(m); }

#ifndef MINISTL_STREAM_CAP
#define MINISTL_STREAM_CAP 128
#endif
  // a non-discarding stream owns a buffer of MINISTL_STREAM_CAP bytes from its construction on; outgrowing it is MODEL-BOUND
  void __ios::init(bool d) {
    n = 0; rpos = 0; st = 0; fl = ios_base::dec; discard = d; gc = 0; tag = 0;
    if (d) { b = 0; cap = 0; } else { b = static_cast<char*>(::operator new(MINISTL_STREAM_CAP)); cap = MINISTL_STREAM_CAP; }
  }
  void __ios::put(const char* s, size_t m) {
    if (discard || m == 0) return;
    if (n + m > cap) {
      __vf_model_bound();
      size_t nc = cap * 2; if (nc < n + m) nc = n + m;
      char* nb = static_cast<char*>(::operator new(nc));
      for (size_t i = 0; i < n; ++i) nb[i] = b[i];
      if (b) ::operator delete((void*)b);
      b = nb; cap = nc;
    }
    { char* dst = b + n; for (size_t i = 0; i < m; ++i) dst[i] = s[i]; }
    n += m;
    st &= ~ios_base::eofbit;
  }
  void __ios::release() { if (b) ::operator delete((void*)b); b = 0; n = cap = rpos = 0; }

  static __ios cout_state_ = { 0, 0, 0, 0, 0, ios_base::dec, true, 0, 0 };
  static __ios cerr_state_ = { 0, 0, 0, 0, 0, ios_base::dec, true, 0, 0 };
  static __ios cin_state_ = { 0, 0, 0, 0, ios_base::eofbit | ios_base::failbit, ios_base::dec, false, 0, 0 };
  ostream cout(&cout_state_); ostream cerr(&cerr_state_); ostream clog(&cerr_state_); istream cin(&cin_state_);

  ostream& ostream::operator<<(unsigned long v) {
    if (s_->discard) return *this;
    char t[24]; size_t k = 24;
    unsigned base = (s_->fl & hex) ? 16 : ((s_->fl & oct) ? 8 : 10);
    do { unsigned d = (unsigned)(v % base); t[--k] = (char)(d < 10 ? '0' + d : 'a' + (d - 10)); v /= base; } while (v != 0);
    s_->put(t + k, 24 - k); return *this;
  }
  ostream& ostream::operator<<(long v) {
    if (s_->discard) return *this;
    if (v < 0 && !(s_->fl & (hex | oct))) { s_->putc('-'); return *this << (unsigned long)(0UL - (unsigned long)v); }
    return *this << (unsigned long)v;
  }
  ostream& ostream::operator<<(double) { if (!s_->discard) s_->putc('?'); return *this; }
  ostream& operator<<(ostream& o, const char* s) { if (o.__state()->discard) return o; o.write(s, (streamsize)strlen(s)); return o; }

  static inline bool isws_(char c) { return c == ' ' || c == '\n' || c == '\t' || c == '\r' || c == '\v' || c == '\f'; }
  int istream::get() {
    s_->gc = 0;
    if (s_->st != 0) { s_->st |= failbit; return -1; }
    if (s_->rpos >= s_->n) { s_->st |= eofbit | failbit; return -1; }
    s_->gc = 1; return (unsigned char)s_->b[s_->rpos++];
  }
  int istream::peek() {
    if (s_->st != 0) return -1;
    if (s_->rpos >= s_->n) { s_->st |= eofbit; return -1; }
    return (unsigned char)s_->b[s_->rpos];
  }
  void istream::skipws_() { while (s_->rpos < s_->n && isws_(s_->b[s_->rpos])) ++s_->rpos; }
  istream& ws(istream& i) { __ios* s = i.__state(); while (s->rpos < s->n && isws_(s->b[s->rpos])) ++s->rpos; if (s->rpos >= s->n) s->st |= ios_base::eofbit; return i; }
  istream& istream::getline(char* buf, streamsize n, char delim) {
    s_->gc = 0;
    if (s_->st != 0) { if (n > 0) buf[0] = 0; s_->st |= failbit; return *this; }
    size_t k = 0;
    for (;;) {
      if (s_->rpos >= s_->n) { s_->st |= eofbit; break; }
      char c = s_->b[s_->rpos];
      if (c == delim) { ++s_->rpos; ++s_->gc; break; }
      if (n <= 0 || k + 1 >= (size_t)n) { s_->st |= failbit; break; }
      buf[k++] = c; ++s_->rpos; ++s_->gc;
    }
    if (n > 0) buf[k] = 0;
    if (s_->gc == 0) s_->st |= failbit;
    return *this;
  }
  istream& istream::ignore(streamsize n, int delim) {
    s_->gc = 0;
    if (s_->st != 0) { s_->st |= failbit; return *this; }
    while ((streamsize)s_->gc < n) {
      if (s_->rpos >= s_->n) { s_->st |= eofbit; break; }
      char c = s_->b[s_->rpos++]; ++s_->gc;
      if (delim >= 0 && (unsigned char)c == (unsigned)delim) break;
    }
    return *this;
  }
  istream& istream::read(char* buf, streamsize n) {
    s_->gc = 0;
    if (s_->st != 0) { s_->st |= failbit; return *this; }
    size_t rp = s_->rpos, avail = s_->n, k = 0; const char* src = s_->b;
    for (; (streamsize)k < n; ++k) {
      if (rp >= avail) { s_->st |= eofbit | failbit; break; }
      buf[k] = src[rp++];
    }
    s_->rpos = rp; s_->gc = k;
    return *this;
  }
  bool istream::rdulong_(unsigned long& v, bool& neg) {
    v = 0; neg = false;
    if (s_->st != 0) { s_->st |= failbit; return false; }
    skipws_();
    if (s_->rpos >= s_->n) { s_->st |= eofbit | failbit; return false; }
    if (s_->b[s_->rpos] == '-' || s_->b[s_->rpos] == '+') { neg = (s_->b[s_->rpos] == '-'); ++s_->rpos; }
    unsigned base = (s_->fl & hex) ? 16 : ((s_->fl & oct) ? 8 : 10);
    size_t nd = 0; bool ovf = false;
    while (s_->rpos < s_->n) {
      char c = s_->b[s_->rpos]; unsigned d;
      if (c >= '0' && c <= '9') d = c - '0'; else if (c >= 'a' && c <= 'f') d = c - 'a' + 10; else if (c >= 'A' && c <= 'F') d = c - 'A' + 10; else break;
      if (d >= base) break;
      if (v > ((unsigned long)-1 - d) / base) ovf = true; else v = v * base + d;
      ++s_->rpos; ++nd;
    }
    if (s_->rpos >= s_->n) s_->st |= eofbit;
    if (nd == 0) { s_->st |= failbit; return false; }
    if (ovf) { v = (unsigned long)-1; s_->st |= failbit; return false; }
    return true;
  }
  istream& istream::operator>>(unsigned long& v) { unsigned long u; bool neg; if (rdulong_(u, neg)) v = neg ? 0UL - u : u; else v = u; return *this; }
  istream& istream::operator>>(long& v) { unsigned long u; bool neg; if (rdulong_(u, neg)) v = neg ? -(long)u : (long)u; else v = 0; return *this; }
  istream& operator>>(istream& i, char& c) {
    __ios* s = i.__state();
    if (s->st != 0) { s->st |= ios_base::failbit; return i; }
    while (s->rpos < s->n && isws_(s->b[s->rpos])) ++s->rpos;
    if (s->rpos >= s->n) { s->st |= ios_base::eofbit | ios_base::failbit; return i; }
    c = s->b[s->rpos++]; return i;
  }
  istream& __rdword(istream& i, string& str) {
    __ios* s = i.__state();
    str.clear();
    if (s->st != 0) { s->st |= ios_base::failbit; return i; }
    while (s->rpos < s->n && isws_(s->b[s->rpos])) ++s->rpos;
    while (s->rpos < s->n && !isws_(s->b[s->rpos])) str.push_back(s->b[s->rpos++]);
    if (s->rpos >= s->n) s->st |= ios_base::eofbit;
    if (str.empty()) s->st |= ios_base::failbit;
    return i;
  }
  istream& __rdline(istream& i, string& str, char delim) {
    __ios* s = i.__state();
    str.clear();
    if (s->st != 0) { s->st |= ios_base::failbit; return i; }
    size_t got = 0;
    for (;;) {
      if (s->rpos >= s->n) { s->st |= ios_base::eofbit; break; }
      char c = s->b[s->rpos++]; ++got;
      if (c == delim) break;
      str.push_back(c);
    }
    if (got == 0) s->st |= ios_base::failbit;
    return i;
  }
}
